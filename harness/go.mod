module verif

go 1.19
