// Package genexec is binding B2 (trace validation, code -> spec): programs
// printed by TLC from spec/GenExec.tla are concretised as interface methods
// over instrumented user code, the real tool generates the functions, a
// driver executes them under value vectors and armed fault sets, and the
// recorded NDJSON traces are checked by TLC against spec/GenExecTrace.tla.
package genexec

import (
	"fmt"
	"sort"
	"strings"
)

// Hook is the shape of a pre/post hook.
type Hook struct {
	On     bool `json:"on"`
	DstPtr bool `json:"dstPtr"`
	SrcPtr bool `json:"srcPtr"`
	Err    bool `json:"err"`
	Args   bool `json:"args"`
}

// Prog is one program printed by TLC.
type Prog struct {
	Kinds  []string `json:"kinds"`
	Style  string   `json:"style"`
	Pre    Hook     `json:"pre"`
	Post   Hook     `json:"post"`
	RetErr bool     `json:"retErr"`
	Name   string   `json:"-"`
}

// frag is the Go side of one GenExecFrag kind.
type frag struct {
	src, dst string   // struct field lines
	methods  string   // methods of the source type; %T = type name
	notes    []string // notation lines
	scalars  []string // scalar destination leaves (hook writes), with their Go type
}

var frags = map[string]frag{
	"field":    {src: "Ffield int", dst: "Ffield int", scalars: []string{"Ffield:int"}},
	"cast":     {src: "Fcast int", dst: "Fcast int64", scalars: []string{"Fcast:int64"}},
	"str":      {src: "Fstr EW", dst: "Fstr string", scalars: []string{"Fstr:string"}},
	"getter":   {src: "GtBack int", dst: "Fgetter int", methods: "func (s *%T) Fgetter() int { vrt.Call(\"Fgetter\"); return s.GtBack + 5000 }\n", scalars: []string{"Fgetter:int"}},
	"arg":      {dst: "Farg int", notes: []string{":map $2 Farg"}, scalars: []string{"Farg:int"}},
	"argnest":  {src: "Fan EN", dst: "Fan EN", notes: []string{":map $2 Fan.X"}, scalars: []string{"Fan.X:int", "Fan.Y:string"}},
	"lit":      {dst: "Flit int", notes: []string{":literal Flit 42"}, scalars: []string{"Flit:int"}},
	"convV":    {src: "FconvV int", dst: "FconvV int", notes: []string{":conv CvV FconvV"}, scalars: []string{"FconvV:int"}},
	"convP":    {src: "FconvP int", dst: "FconvP int", notes: []string{":conv CvP FconvP"}, scalars: []string{"FconvP:int"}},
	"convE":    {src: "FconvE int", dst: "FconvE int", notes: []string{":conv CvE FconvE"}, scalars: []string{"FconvE:int"}},
	"mapE":     {src: "GeBack int", dst: "FmapE int", methods: "func (s *%T) GetE() (int, error) {\n\tif vrt.Call(\"GetE\") {\n\t\treturn 0, vrt.Err(\"GetE\")\n\t}\n\treturn s.GeBack + 4000, nil\n}\n", notes: []string{":map GetE() FmapE"}, scalars: []string{"FmapE:int"}},
	"slcopy":   {src: "Fslcopy []int", dst: "Fslcopy []int"},
	"slloop":   {src: "Fslloop []EW", dst: "Fslloop []EW"},
	"slcast":   {src: "Fslcast []int", dst: "Fslcast []int64"},
	"sltags":   {src: "Fsltags ETags", dst: "Fsltags ETags"},
	"slget":    {src: "GslBack []int", dst: "Fslget []int", methods: "func (s *%T) Fslget() []int { return s.GslBack }\n"},
	"slptr":    {src: "Fslptr []*int", dst: "Fslptr []*int"},
	"slstruct": {src: "Fslstruct []EN", dst: "Fslstruct []EN"},
	"slbyte":   {src: "Fslbyte []byte", dst: "Fslbyte []byte"},
	"slbtag":   {src: "Fslbtag EDigest", dst: "Fslbtag EDigest"},
	"slext":    {src: "Fslext []vrt.VInt", dst: "Fslext []vrt.VInt"},
	"slextp":   {src: "Fslextp []*vrt.VS", dst: "Fslextp []*vrt.VS"},
	"slhid":    {src: "Fh vrt.VHA", dst: "Fh vrt.VHB", scalars: []string{"Fh.K:int"}},
	"slnest":   {src: "Fsn EN5", dst: "Fsn EN6", scalars: []string{"Fsn.K:int"}},
	"nest":     {src: "Fnest EN", dst: "Fnest EN2", scalars: []string{"Fnest.X:int", "Fnest.Y:string"}},
	"nestE":    {src: "FnestE EN", dst: "FnestE EN2", notes: []string{":conv CvE2 FnestE.X FnestE.X"}, scalars: []string{"FnestE.X:int", "FnestE.Y:string"}},
	"nestE2":   {src: "FnestD EN3", dst: "FnestD EN4", notes: []string{":conv CvE3 FnestD.In.X FnestD.In.X"}, scalars: []string{"FnestD.In.X:int", "FnestD.In.Y:string", "FnestD.K:int"}},
	"ptr":      {src: "Fptr *int", dst: "Fptr *int"},
	"mapptr":   {src: "Pq *int", dst: "Fmp *int", notes: []string{":map Pq Fmp"}},
	"npath":    {src: "Pn *EN", dst: "Fnp int", notes: []string{":map Pn.X Fnp"}, scalars: []string{"Fnp:int"}},
	"sibpfx":   {src: "Fsp EN\n\tFspQ vrt.VP", dst: "Fsp EN\n\tFspQ vrt.VP", notes: []string{":literal Fsp.X 42"}, scalars: []string{"Fsp.X:int", "Fsp.Y:string", "FspQ.Pub:int"}},
	"twin":     {src: "Ftwa EN3\n\tFtwb EN3", dst: "Ftwa EN3\n\tFtwb EN3", notes: []string{":literal Ftwb.In.X 42", ":skip Ftwb.In.Y"}, scalars: []string{"Ftwa.In.X:int", "Ftwa.In.Y:string", "Ftwa.K:int", "Ftwb.In.X:int", "Ftwb.In.Y:string", "Ftwb.K:int"}},
	"skipci":   {src: "Fskipci int", dst: "Fskipci int", notes: []string{":skip fskipci", ":case:off"}, scalars: []string{"Fskipci:int"}},
	"skip":     {src: "Fskip int", dst: "Fskip int", notes: []string{":skip Fskip"}, scalars: []string{"Fskip:int"}},
	"nomatch":  {dst: "Fnomatch int", scalars: []string{"Fnomatch:int"}},
}

// Kinds lists the kinds known to the harness (must equal DOMAIN Frag).
func Kinds() []string {
	var ks []string
	for k := range frags {
		ks = append(ks, k)
	}
	sort.Strings(ks)
	return ks
}

// SharedSrc is the shared part of the cases package (import-free apart from vrt).
const SharedSrc = `
// EW is an int-based type with an instrumented String method.
type EW int

func (w EW) String() string {
	vrt.Call("S")
	return "S(" + vrt.Sym(int(w)) + ")"
}

type EN struct {
	X int
	Y string
}

type EN2 struct {
	X int
	Y string
}

type EN3 struct {
	In EN
	K  int
}

type EN4 struct {
	In EN2
	K  int
}

type EN5 struct {
	L []int
	K int
}

// EN6 differs from EN5 (member Z), so that the two are copied member by member rather than converted as a
// whole (a whole-struct conversion shares the slices inside, which C16 does not speak about)
type EN6 struct {
	L []int
	K int
	Z bool
}

type ETags []string

type EDigest []byte

func CvV(i int) int { vrt.Call("CvV"); return i + 1000 }

func CvP(p *int) int { vrt.Call("CvP"); return *p + 2000 }

func CvE(i int) (int, error) {
	if vrt.Call("CvE") {
		return 0, vrt.Err("CvE")
	}
	return i + 3000, nil
}

func CvE2(i int) (int, error) {
	if vrt.Call("CvE2") {
		return 0, vrt.Err("CvE2")
	}
	return i + 6000, nil
}

func CvE3(i int) (int, error) {
	if vrt.Call("CvE3") {
		return 0, vrt.Err("CvE3")
	}
	return i + 7000, nil
}
`

// VrtSrc is the import-free recorder linked into the generated programs.
const VrtSrc = `// Package vrt records calls made by generated functions into user code.
package vrt

// VInt and VS are element types of an imported package.
type VInt int

type VS struct {
	X int
	Y string
}

// VP has a member that only this package can see: a VP is copied as a whole or not at all.
type VP struct {
	Pub int
	hid int
}

// VHA and VHB hold slices whose element type only this package can name. Code outside can read and assign
// such a slice but cannot write down its type: there is no make([]vrt.vhid, n) over there.
type vhid int

type VHA struct {
	Entries []vhid
	K       int
}

type VHB struct {
	Entries []vhid
	K       int
	Z       bool
}

type Event struct {
	Site  string
	Fail  bool
	Dst   interface{} // hooks: shallow copy of the destination at call time
	Src   interface{}
	Args  []interface{}
	IsHook bool
}

var Events []Event
var Faults = map[string]bool{}

type siteErr struct{ site string }

func (e *siteErr) Error() string { return "injected failure at " + e.site }

var errs = map[string]*siteErr{}

// Err returns the sentinel error of a site (one value per site).
func Err(site string) error {
	e, ok := errs[site]
	if !ok {
		e = &siteErr{site}
		errs[site] = e
	}
	return e
}

// SiteOf names the site whose sentinel err is, "nil" for nil, "?" otherwise.
func SiteOf(err error) string {
	if err == nil {
		return "nil"
	}
	for s, e := range errs {
		if error(e) == err {
			return s
		}
	}
	return "?" + err.Error()
}

// Call records a call and reports whether the site is armed to fail.
func Call(site string) bool {
	f := Faults[site]
	Events = append(Events, Event{Site: site, Fail: f})
	return f
}

// Hook records a hook call with copies of its operands.
func Hook(site string, dst, src interface{}, args ...interface{}) bool {
	f := Faults[site]
	Events = append(Events, Event{Site: site, Fail: f, Dst: dst, Src: src, Args: args, IsHook: true})
	return f
}

func itoa(n int) string {
	if n == 0 {
		return "0"
	}
	neg := n < 0
	if neg {
		n = -n
	}
	var b [24]byte
	i := len(b)
	for n > 0 {
		i--
		b[i] = byte('0' + n%10)
		n /= 10
	}
	if neg {
		i--
		b[i] = '-'
	}
	return string(b[i:])
}

var tags = []string{"", "CvV", "CvP", "CvE", "GetE", "Fgetter", "CvE2", "CvE3"}

// Sym renders an int as the symbolic value the specification computes: user
// functions tag their result with 1000 * (their number), hooks write 901 / 902.
func Sym(n int) string {
	switch {
	case n == 901:
		return "pre"
	case n == 902:
		return "post"
	case n >= 1000 && n/1000 < len(tags):
		return tags[n/1000] + "(" + Sym(n%1000) + ")"
	}
	return itoa(n)
}
`

func star(b bool) string {
	if b {
		return "*"
	}
	return ""
}

// Decls renders the declarations of one program: source and destination
// struct, getters, hooks.
func (p *Prog) Decls() string {
	var sb, sf, df, ms strings.Builder
	// under :reverse the copy goes from the method's destination operand (D) into its source operand (S):
	// the fragment's source members live in D and its destination members in S
	from, to := "S", "D"
	if p.Style == "argrev" {
		from, to = "D", "S"
	}
	for _, k := range p.Kinds {
		f := frags[k]
		if f.src != "" {
			sf.WriteString("\t" + f.src + "\n")
		}
		df.WriteString("\t" + f.dst + "\n")
		ms.WriteString(strings.ReplaceAll(f.methods, "%T", from+p.Name))
	}
	fmt.Fprintf(&sb, "type %s%s struct {\n%s\tExtra int\n}\n\n", from, p.Name, sf.String())
	fmt.Fprintf(&sb, "type %s%s struct {\n%s\tKeep int\n\tKeepS string\n}\n\n", to, p.Name, df.String())
	sb.WriteString(ms.String())
	hook := func(site string, h Hook, tagInt int, tagStr string) {
		if !h.On {
			return
		}
		params := fmt.Sprintf("d %sD%s, s %sS%s", star(h.DstPtr), p.Name, star(h.SrcPtr), p.Name)
		argv := ""
		if h.Args {
			params += ", a0 int"
			argv = ", a0"
		}
		ret := ""
		if h.Err {
			ret = " error"
		}
		dcopy, scopy := "d", "s"
		if h.DstPtr {
			dcopy = "*d"
		}
		if h.SrcPtr {
			scopy = "*s"
		}
		fmt.Fprintf(&sb, "func %s%s(%s)%s {\n\tfail := vrt.Hook(%q, %s, %s%s)\n", site, p.Name, params, ret, site, dcopy, scopy, argv)
		// write the hook's tag into every scalar destination leaf
		for _, sc := range p.Scalars() {
			i := strings.IndexByte(sc, ':')
			path, typ := sc[:i], sc[i+1:]
			if typ == "string" {
				fmt.Fprintf(&sb, "\td.%s = %q\n", path, tagStr)
			} else {
				fmt.Fprintf(&sb, "\td.%s = %d\n", path, tagInt)
			}
		}
		if h.Err {
			fmt.Fprintf(&sb, "\tif fail {\n\t\treturn vrt.Err(%q)\n\t}\n\treturn nil\n}\n\n", site)
		} else {
			sb.WriteString("\t_ = fail\n}\n\n")
		}
	}
	hook("Pre", p.Pre, 901, "pre")
	hook("Post", p.Post, 902, "post")
	return sb.String()
}

// Scalars lists "path:type" of the scalar destination leaves of the program.
func (p *Prog) Scalars() []string {
	var out []string
	for _, k := range p.Kinds {
		out = append(out, frags[k].scalars...)
	}
	out = append(out, "Keep:int", "KeepS:string")
	return out
}

// Notes renders the method's notation lines.
func (p *Prog) Notes() []string {
	n := []string{":typecast", ":stringer", ":getter"}
	switch p.Style {
	case "arg", "argval":
		n = append(n, ":style arg")
	case "argrev":
		n = append(n, ":style arg", ":reverse")
	case "recvptr":
		n = append(n, ":recv rc")
	}
	for _, k := range p.Kinds {
		n = append(n, frags[k].notes...)
	}
	if p.Pre.On {
		n = append(n, ":preprocess Pre"+p.Name)
	}
	if p.Post.On {
		n = append(n, ":postprocess Post"+p.Name)
	}
	return n
}

// Method renders the interface method.
func (p *Prog) Method() string {
	res := "*D" + p.Name
	if p.Style == "retval" || p.Style == "argval" {
		res = "D" + p.Name
	}
	if p.RetErr {
		res = "(" + res + ", error)"
	}
	if p.Style == "retie" {
		if p.RetErr {
			return fmt.Sprintf("X%s(e *S%s, n int) (i *D%s, err error)", p.Name, p.Name, p.Name)
		}
		return fmt.Sprintf("X%s(e *S%s, n int) (i *D%s)", p.Name, p.Name, p.Name)
	}
	if p.Style == "argrev" {
		// additional arguments are illegal together with :reverse
		return fmt.Sprintf("X%s(*S%s) %s", p.Name, p.Name, res)
	}
	return fmt.Sprintf("X%s(*S%s, int) %s", p.Name, p.Name, res)
}

// RegistryExpr is the Go expression of the generated function (a method expression under :recv).
func (p *Prog) RegistryExpr() string {
	if p.Style == "recvptr" {
		return fmt.Sprintf("(*S%s).X%s", p.Name, p.Name)
	}
	return "X" + p.Name
}

// Describe is a one-line description for messages.
func (p *Prog) Describe() string {
	h := func(n string, x Hook) string {
		if !x.On {
			return ""
		}
		return fmt.Sprintf(" %s(dst=%sD src=%sS err=%v args=%v)", n, star(x.DstPtr), star(x.SrcPtr), x.Err, x.Args)
	}
	return fmt.Sprintf("X%s kinds=%v style=%s retErr=%v%s%s", p.Name, p.Kinds, p.Style, p.RetErr, h("pre", p.Pre), h("post", p.Post))
}
