package genexec

// DriverSrc is the reflection-based driver linked with the generated package.
// It is generic; the registry (name -> function value, hook-free) is generated.
const DriverSrc = `package main

import (
	"bufio"
	"encoding/json"
	"fmt"
	"os"
	"reflect"
	"sort"
	"strings"
	"unsafe"

	"gxm/p"
	"gxm/vrt"
)

type hook struct {
	On     bool ` + "`json:\"on\"`" + `
	DstPtr bool ` + "`json:\"dstPtr\"`" + `
	SrcPtr bool ` + "`json:\"srcPtr\"`" + `
	Err    bool ` + "`json:\"err\"`" + `
	Args   bool ` + "`json:\"args\"`" + `
}
type prog struct {
	Name   string   ` + "`json:\"name\"`" + `
	Kinds  []string ` + "`json:\"kinds\"`" + `
	Style  string   ` + "`json:\"style\"`" + `
	Pre    hook     ` + "`json:\"pre\"`" + `
	Post   hook     ` + "`json:\"post\"`" + `
	RetErr bool     ` + "`json:\"retErr\"`" + `
	Scalars []string ` + "`json:\"scalars\"`" + `
	ErrSites []string ` + "`json:\"errSites\"`" + `
	MaxFaultSets int ` + "`json:\"maxFaultSets\"`" + `
}

var _ = p.Registry

func sym(v reflect.Value) string {
	switch v.Kind() {
	case reflect.Int, reflect.Int64, reflect.Int32:
		return vrt.Sym(int(v.Int()))
	case reflect.Uint8:
		return vrt.Sym(int(v.Uint()))
	case reflect.String:
		return v.String()
	case reflect.Bool:
		return fmt.Sprint(v.Bool())
	case reflect.Slice:
		if v.IsNil() {
			return "nil"
		}
		var parts []string
		for i := 0; i < v.Len(); i++ {
			parts = append(parts, sym(v.Index(i)))
		}
		return "[" + strings.Join(parts, " ") + "]"
	case reflect.Ptr:
		if v.IsNil() {
			return "nil"
		}
		return "&" + sym(v.Elem())
	case reflect.Struct:
		var parts []string
		for i := 0; i < v.NumField(); i++ {
			parts = append(parts, sym(v.Field(i)))
		}
		return "{" + strings.Join(parts, ",") + "}"
	}
	return "?" + v.Kind().String()
}

// snapshot renders every leaf of a struct value as path -> symbolic value.
func snapshot(v reflect.Value, prefix string, out map[string]string) {
	for v.Kind() == reflect.Ptr || v.Kind() == reflect.Interface {
		if v.IsNil() {
			return
		}
		v = v.Elem()
	}
	t := v.Type()
	for i := 0; i < t.NumField(); i++ {
		f := v.Field(i)
		name := prefix + t.Field(i).Name
		if f.Kind() == reflect.Struct {
			snapshot(f, name+".", out)
			continue
		}
		if f.Kind() == reflect.Ptr && f.Type().Elem().Kind() == reflect.Struct {
			// a pointer member: "nil", or its leaves below it
			if f.IsNil() {
				out[name] = "nil"
			} else {
				out[name] = "&"
				snapshot(f.Elem(), name+".", out)
			}
			continue
		}
		out[name] = sym(f)
	}
}

func snap(v reflect.Value) map[string]string {
	m := map[string]string{"_": "_"}
	snapshot(v, "", m)
	return m
}

// fill sets every leaf of a struct to a value of the vector.
func fill(v reflect.Value, vec int, counter *int) {
	t := v.Type()
	for i := 0; i < t.NumField(); i++ {
		f := v.Field(i)
		if !f.CanSet() && f.CanAddr() {
			// a member of another package that is not exported: the driver may write where generated code may not
			f = reflect.NewAt(f.Type(), unsafe.Pointer(f.UnsafeAddr())).Elem()
		}
		switch f.Kind() {
		case reflect.Struct:
			fill(f, vec, counter)
		case reflect.Int, reflect.Int64:
			*counter++
			switch vec {
			case 0:
				f.SetInt(int64(10 + *counter))
			case 1:
				f.SetInt(0)
			case 2:
				f.SetInt(int64(700 + *counter))
			case 9: // caller's sentinel in arg style
				f.SetInt(333)
			}
		case reflect.String:
			*counter++
			switch vec {
			case 0:
				f.SetString(fmt.Sprintf("s%d", *counter))
			case 1:
				f.SetString("")
			case 2:
				f.SetString(fmt.Sprintf("long string %d", *counter))
			case 9:
				f.SetString("old")
			}
		case reflect.Slice:
			*counter++
			n := 0
			switch vec {
			case 0:
				n = 2
			case 1:
				n = -1 // nil
			case 2:
				n = 0 // empty, non-nil
			case 9:
				n = 1
			}
			if n < 0 {
				continue
			}
			s := reflect.MakeSlice(f.Type(), n, n+2)
			for k := 0; k < n; k++ {
				e := s.Index(k)
				val := int64(100 + *counter*3 + k)
				if vec == 9 {
					val = 9
				}
				switch e.Kind() {
				case reflect.String:
					e.SetString(fmt.Sprintf("e%d_%d", *counter, k))
				case reflect.Ptr:
					pv := reflect.New(e.Type().Elem())
					if pv.Elem().Kind() == reflect.Struct {
						pv.Elem().Field(0).SetInt(val)
						pv.Elem().Field(1).SetString(fmt.Sprintf("m%d", val))
					} else {
						pv.Elem().SetInt(val)
					}
					e.Set(pv)
				case reflect.Struct:
					e.Field(0).SetInt(val)
					e.Field(1).SetString(fmt.Sprintf("m%d", val))
				case reflect.Uint8:
					e.SetUint(uint64(val % 200))
				default:
					e.SetInt(val)
				}
			}
			f.Set(s)
		case reflect.Ptr:
			*counter++
			if vec == 1 {
				continue // nil
			}
			e := reflect.New(f.Type().Elem())
			if e.Elem().Kind() == reflect.Struct {
				fill(e.Elem(), vec, counter)
			} else if vec == 9 {
				e.Elem().SetInt(8)
			} else {
				e.Elem().SetInt(int64(200 + *counter))
			}
			f.Set(e)
		}
	}
}

func sliceLeaves(v reflect.Value, prefix string, out map[string]reflect.Value) {
	for v.Kind() == reflect.Ptr {
		if v.IsNil() {
			return
		}
		v = v.Elem()
	}
	t := v.Type()
	for i := 0; i < t.NumField(); i++ {
		f := v.Field(i)
		name := prefix + t.Field(i).Name
		switch f.Kind() {
		case reflect.Struct:
			sliceLeaves(f, name+".", out)
		case reflect.Slice:
			out[name] = f
		}
	}
}

type event map[string]interface{}

// runOne executes one run: begin event, the call, call events, end event, observe event.
// dstPtr is the copy target handed in (arg styles) or the zero Value (return styles).
func runOne(enc *json.Encoder, pr prog, fn reflect.Value, ft reflect.Type, args []reflect.Value, srcPtr, dstPtr reflect.Value, vec int, faults []string, argVal int) {
	vrt.Events = nil
	argsSnap := map[string]string{"_": "_"}
	if argVal >= 0 {
		argsSnap["ARG0"] = vrt.Sym(argVal)
	}
	srcSnap := snap(srcPtr)
	var dst0 map[string]string
	if dstPtr.IsValid() {
		dst0 = snap(dstPtr)
	} else {
		rt := ft.Out(0)
		if rt.Kind() == reflect.Ptr {
			rt = rt.Elem()
		}
		dst0 = snap(reflect.New(rt))
	}
	hk := func(h hook) map[string]interface{} {
		ha := map[string]string{"_": "_"}
		if h.On && h.Args && argVal >= 0 {
			ha["ARG0"] = vrt.Sym(argVal)
		}
		return map[string]interface{}{"on": h.On, "dstPtr": h.DstPtr, "err": h.Err, "hargs": ha}
	}
	scal := map[string]bool{}
	for _, s := range pr.Scalars {
		scal[s] = true
	}
	scalars := []string{}
	for p := range dst0 {
		if scal[p] {
			scalars = append(scalars, p)
		}
	}
	sort.Strings(scalars)
	_ = enc.Encode(event{"ev": "begin", "fn": pr.Name, "kinds": pr.Kinds, "style": pr.Style, "pre": hk(pr.Pre), "post": hk(pr.Post),
		"src": srcSnap, "args": argsSnap, "dst0": dst0, "faults": faults, "vec": vec, "scalars": scalars})
	var results []reflect.Value
	panicked := ""
	func() {
		defer func() {
			if e := recover(); e != nil {
				panicked = fmt.Sprint(e)
			}
		}()
		results = fn.Call(args)
	}()
	for _, e := range vrt.Events {
		ev := event{"ev": "call", "site": e.Site, "fail": e.Fail}
		if e.IsHook {
			ev["seen"] = snap(reflect.ValueOf(e.Dst))
			ev["srcSeen"] = snap(reflect.ValueOf(e.Src))
			as := map[string]string{"_": "_"}
			for i, a := range e.Args {
				as[fmt.Sprintf("ARG%d", i)] = vrt.Sym(a.(int))
			}
			ev["argsSeen"] = as
		}
		_ = enc.Encode(ev)
	}
	errSite := "nil"
	var dstV reflect.Value
	if panicked == "" {
		ri := 0
		if dstPtr.IsValid() {
			dstV = dstPtr
		} else {
			dstV = results[0]
			ri = 1
		}
		if pr.RetErr {
			if e, ok := results[ri].Interface().(error); ok && e != nil {
				errSite = vrt.SiteOf(e)
			}
		}
	}
	end := event{"ev": "end", "err": errSite, "panicked": panicked != "", "panic": panicked, "src": snap(srcPtr), "args": argsSnap, "shared": []string{}}
	okDst := panicked == "" && !(dstV.Kind() == reflect.Ptr && dstV.IsNil())
	if okDst {
		end["dst"] = snap(dstV)
		srcSl := map[string]reflect.Value{}
		sliceLeaves(srcPtr, "", srcSl)
		dstSl := map[string]reflect.Value{}
		sliceLeaves(dstV, "", dstSl)
		shared := []string{}
		for dp, dv := range dstSl {
			if dv.IsNil() || dv.Cap() == 0 {
				continue
			}
			for _, sv := range srcSl {
				if !sv.IsNil() && sv.Cap() > 0 && sv.Pointer() == dv.Pointer() {
					shared = append(shared, dp)
				}
			}
		}
		sort.Strings(shared)
		end["shared"] = shared
	} else {
		end["dst"] = map[string]string{"_": "_"}
	}
	_ = enc.Encode(end)
	// C16: overwrite every source slice element and look at the destination again
	if okDst && errSite == "nil" {
		srcSl := map[string]reflect.Value{}
		sliceLeaves(srcPtr, "", srcSl)
		for _, sv := range srcSl {
			for k := 0; k < sv.Len(); k++ {
				e := sv.Index(k)
				switch e.Kind() {
				case reflect.String:
					e.SetString("overwritten")
				case reflect.Ptr:
					// replace the pointer itself (the pointee may legitimately be shared)
					pv := reflect.New(e.Type().Elem())
					if pv.Elem().Kind() == reflect.Struct {
						pv.Elem().Field(0).SetInt(555)
					} else {
						pv.Elem().SetInt(555)
					}
					e.Set(pv)
				case reflect.Struct:
					e.Field(0).SetInt(555)
				case reflect.Uint8:
					e.SetUint(255)
				default:
					e.SetInt(555)
				}
			}
		}
		_ = enc.Encode(event{"ev": "observe", "dst": snap(dstV)})
	}
}

func main() {
	var progs []prog
	b, err := os.ReadFile(os.Args[1])
	if err != nil {
		panic(err)
	}
	if err := json.Unmarshal(b, &progs); err != nil {
		panic(err)
	}
	outf, err := os.Create(os.Args[2])
	if err != nil {
		panic(err)
	}
	w := bufio.NewWriterSize(outf, 1<<20)
	enc := json.NewEncoder(w)
	runs := 0
	for _, pr := range progs {
		fnv, ok := p.Registry[pr.Name]
		if !ok {
			fmt.Fprintf(os.Stderr, "no function %s\n", pr.Name)
			os.Exit(3)
		}
		fn := reflect.ValueOf(fnv)
		ft := fn.Type()
		// fault sets: all subsets of the error-capable sites (capped), for vector 0; no faults for the others
		sites := append([]string(nil), pr.ErrSites...)
		sort.Strings(sites)
		nsets := 1 << uint(len(sites))
		if pr.MaxFaultSets > 0 && nsets > pr.MaxFaultSets {
			nsets = pr.MaxFaultSets
		}
		for vec := 0; vec < 3; vec++ {
			for fs := 0; fs < nsets; fs++ {
				if vec != 0 && fs != 0 {
					break
				}
				faults := []string{}
				vrt.Faults = map[string]bool{}
				for i, s := range sites {
					if fs&(1<<uint(i)) != 0 {
						vrt.Faults[s] = true
						faults = append(faults, s)
					}
				}
				runs++
				if pr.Style == "argrev" {
					// func X(src *D, dst *S): the first operand is the copy source, the second the copy target
					srcPtr := reflect.New(ft.In(0).Elem())
					c0 := 0
					fill(srcPtr.Elem(), vec, &c0)
					dstPtr := reflect.New(ft.In(1).Elem())
					c1 := 0
					fill(dstPtr.Elem(), 9, &c1)
					runOne(enc, pr, fn, ft, []reflect.Value{srcPtr, dstPtr}, srcPtr, dstPtr, vec, faults, -1)
					continue
				}
				var args []reflect.Value
				pi := 0
				var dstPtr reflect.Value
				if pr.Style == "arg" || pr.Style == "argval" {
					dstPtr = reflect.New(ft.In(0).Elem())
					c := 0
					fill(dstPtr.Elem(), 9, &c)
					args = append(args, dstPtr)
					pi = 1
				}
				srcPtr := reflect.New(ft.In(pi).Elem())
				c := 0
				fill(srcPtr.Elem(), vec, &c)
				args = append(args, srcPtr)
				argVal := 40 + vec
				args = append(args, reflect.ValueOf(argVal))
				runOne(enc, pr, fn, ft, args, srcPtr, dstPtr, vec, faults, argVal)
			}
		}
	}
	w.Flush()
	outf.Close()
	fmt.Println("runs:", runs)
}
`
