// Package universe declares the concrete Go type alphabet used by the
// matching models once, as Go source; it type-checks that source with go/types
// and writes spec/TypeTable.tla (facts about Go: assignability,
// convertibility, kinds, method sets, struct shapes). The same source is what
// the concretiser pastes into generated programs, so table and programs cannot
// drift. These are facts about Go, independent of convergen.
package universe

import (
	"fmt"
	"go/ast"
	"go/importer"
	"go/parser"
	"go/token"
	"go/types"
	"sort"
	"strings"
)

// ExtSrc is the imported package of the alphabet (import path <module>/ext).
const ExtSrc = `package ext

type XInt int

func (x XInt) String() string { return "xi" }

type XStr string

func (x *XStr) String() string { return "xs" }

// XS is an imported struct with an unexported member.
type XS struct {
	X int
	y string
}

// XE is an imported struct used as an embedded member.
type XE struct {
	E int
	h int
}

// XA has an anonymous struct member with an unexported field.
type XA struct {
	In struct {
		P int
		q int
	}
}

func NewXS(x int, y string) XS { return XS{X: x, y: y} }

// hooks over imported operands: Hook<dst P|V><src P|V><E error|N none><X extra args|N none>
func HookPPEX(d *XS, s *XS, a0 int, a1 string) error { return nil }
func HookPPEN(d *XS, s *XS) error { return nil }
func HookPPNX(d *XS, s *XS, a0 int, a1 string) {}
func HookPPNN(d *XS, s *XS) {}
func HookPVEX(d *XS, s XS, a0 int, a1 string) error { return nil }
func HookPVEN(d *XS, s XS) error { return nil }
func HookPVNX(d *XS, s XS, a0 int, a1 string) {}
func HookPVNN(d *XS, s XS) {}
func HookVPEX(d XS, s *XS, a0 int, a1 string) error { return nil }
func HookVPEN(d XS, s *XS) error { return nil }
func HookVPNX(d XS, s *XS, a0 int, a1 string) {}
func HookVPNN(d XS, s *XS) {}
func HookVVEX(d XS, s XS, a0 int, a1 string) error { return nil }
func HookVVEN(d XS, s XS) error { return nil }
func HookVVNX(d XS, s XS, a0 int, a1 string) {}
func HookVVNN(d XS, s XS) {}
func hookPP(d *XS, s *XS) {}

var _ = hookPP
func (s XS) Y() string         { return s.y }
`

// LocalSrc is the local part of the alphabet; %s is the package name.
const LocalSrc = `
type MyInt int

func (m MyInt) String() string { return "mi" }

type MyStr string

type LS1 struct {
	X int
	Y string
}

type LS2 struct {
	X int
	Y string
}

type LS3 struct {
	X int
}

func (l LS3) String() string { return "ls3" }

type LS4 struct {
	X int64
	Z string
}

type Tags []string

// XInt is a local type that goes by the name of an imported one.
type XInt int64

type Str interface{ String() string }
`

// TypeDef is one member of the alphabet.
type TypeDef struct {
	ID   string // identifier used in the specification
	Expr string // Go type expression as written in the generated package
}

// Types is the alphabet. The order is irrelevant; ids are sorted in the table.
var Types = []TypeDef{
	{"int", "int"}, {"int64", "int64"}, {"uint8", "uint8"}, {"float64", "float64"}, {"string", "string"}, {"bool", "bool"},
	{"MyInt", "MyInt"}, {"MyStr", "MyStr"}, {"XInt", "ext.XInt"}, {"XStr", "ext.XStr"},
	{"LS1", "LS1"}, {"LS2", "LS2"}, {"LS3", "LS3"}, {"LS4", "LS4"}, {"XS", "ext.XS"},
	{"Anon", "struct {\n\tX int\n\tY string\n}"},
	{"PInt", "*int"}, {"PMyInt", "*MyInt"}, {"PLS1", "*LS1"}, {"PLS2", "*LS2"}, {"PXS", "*ext.XS"}, {"PPInt", "**int"},
	{"SInt", "[]int"}, {"SMyInt", "[]MyInt"}, {"SString", "[]string"}, {"SAny", "[]interface{}"},
	{"SLS1", "[]LS1"}, {"SLS2", "[]LS2"}, {"SPLS1", "[]*LS1"}, {"Tags", "Tags"},
	{"SXInt", "[]ext.XInt"}, {"SPXS", "[]*ext.XS"}, {"SPLS2", "[]*LS2"}, {"SSMyInt", "[][]MyInt"},
	{"Any", "interface{}"}, {"Err", "error"}, {"Str", "Str"}, {"Map", "map[string]int"}, {"Func", "func() int"}, {"Arr", "[2]int"},
}

// ExprOf returns the Go expression of a type id.
func ExprOf(id string) string {
	for _, t := range Types {
		if t.ID == id {
			return t.Expr
		}
	}
	panic("unknown type id " + id)
}

type mapImporter struct{ pkgs map[string]*types.Package }

func (i mapImporter) Import(path string) (*types.Package, error) {
	if p, ok := i.pkgs[path]; ok {
		return p, nil
	}
	return importer.Default().Import(path)
}

// Checked is the type-checked alphabet.
type Checked struct {
	Types map[string]types.Type
	IDs   []string
}

// Check type-checks the alphabet.
func Check() (*Checked, error) {
	fset := token.NewFileSet()
	fe, err := parser.ParseFile(fset, "ext.go", ExtSrc, 0)
	if err != nil {
		return nil, err
	}
	ext, err := (&types.Config{}).Check("u/ext", fset, []*ast.File{fe}, nil)
	if err != nil {
		return nil, err
	}
	var sb strings.Builder
	sb.WriteString("package u\n\nimport \"u/ext\"\n\nvar _ ext.XInt\n")
	sb.WriteString(LocalSrc)
	sb.WriteString("\ntype U struct {\n")
	for _, t := range Types {
		fmt.Fprintf(&sb, "\tT_%s %s\n", t.ID, t.Expr)
	}
	sb.WriteString("}\n")
	fu, err := parser.ParseFile(fset, "u.go", sb.String(), 0)
	if err != nil {
		return nil, err
	}
	u, err := (&types.Config{Importer: mapImporter{map[string]*types.Package{"u/ext": ext}}}).Check("u", fset, []*ast.File{fu}, nil)
	if err != nil {
		return nil, err
	}
	st := u.Scope().Lookup("U").Type().Underlying().(*types.Struct)
	c := &Checked{Types: map[string]types.Type{}}
	for i := 0; i < st.NumFields(); i++ {
		id := strings.TrimPrefix(st.Field(i).Name(), "T_")
		c.Types[id] = st.Field(i).Type()
		c.IDs = append(c.IDs, id)
	}
	sort.Strings(c.IDs)
	return c, nil
}

func q(s string) string { return `"` + s + `"` }

func (c *Checked) idOf(t types.Type) string {
	for _, id := range c.IDs {
		if types.Identical(c.Types[id], t) {
			return id
		}
	}
	return "NONE"
}

func deref(t types.Type) types.Type {
	if p, ok := t.(*types.Pointer); ok {
		return p.Elem()
	}
	return t
}

// Table renders TypeTable.tla.
func (c *Checked) Table() string {
	var w strings.Builder
	w.WriteString("---- MODULE TypeTable ----\n(* generated by harness/internal/universe from go/types; facts about Go, not about convergen. Do not edit. *)\nEXTENDS TLC\n")
	ids := make([]string, len(c.IDs))
	for i, id := range c.IDs {
		ids[i] = q(id)
	}
	fmt.Fprintf(&w, "TypeIds == {%s}\n", strings.Join(ids, ", "))
	var asg, cnv []string
	for _, a := range c.IDs {
		for _, b := range c.IDs {
			if types.AssignableTo(c.Types[a], c.Types[b]) {
				asg = append(asg, "<<"+q(a)+","+q(b)+">>")
			} else if types.ConvertibleTo(c.Types[a], c.Types[b]) {
				cnv = append(cnv, "<<"+q(a)+","+q(b)+">>")
			}
		}
	}
	fmt.Fprintf(&w, "Assignable == {%s}\n", strings.Join(asg, ", "))
	fmt.Fprintf(&w, "ConvertibleOnly == {%s}\n", strings.Join(cnv, ", "))
	fn := func(name string, f func(id string, t types.Type) string) {
		var parts []string
		for _, id := range c.IDs {
			parts = append(parts, fmt.Sprintf("%s :> %s", q(id), f(id, c.Types[id])))
		}
		fmt.Fprintf(&w, "%s == %s\n", name, strings.Join(parts, " @@ "))
	}
	fn("TypeExpr", func(id string, t types.Type) string {
		e := ExprOf(id)
		if id == "Anon" {
			e = "struct{X int; Y string}"
		}
		return q(e)
	})
	fn("Kind", func(id string, t types.Type) string {
		switch t.(type) {
		case *types.Basic:
			return q("basic")
		case *types.Named:
			return q("named")
		case *types.Pointer:
			return q("ptr")
		case *types.Slice:
			return q("slice")
		case *types.Struct:
			return q("struct")
		}
		return q("other")
	})
	// kind of the underlying type after one pointer dereference
	fn("UKind", func(id string, t types.Type) string {
		switch deref(t).Underlying().(type) {
		case *types.Basic:
			return q("basic")
		case *types.Struct:
			return q("struct")
		case *types.Slice:
			return q("slice")
		case *types.Interface:
			return q("interface")
		case *types.Pointer:
			return q("ptr")
		}
		return q("other")
	})
	fn("SliceElem", func(id string, t types.Type) string {
		if s, ok := t.(*types.Slice); ok {
			return q(c.idOf(s.Elem()))
		}
		return q("NONE")
	})
	// element of a slice after looking through a defined slice type (Tags)
	fn("USliceElem", func(id string, t types.Type) string {
		if s, ok := t.Underlying().(*types.Slice); ok {
			return q(c.idOf(s.Elem()))
		}
		return q("NONE")
	})
	fn("PtrElem", func(id string, t types.Type) string {
		if p, ok := t.(*types.Pointer); ok {
			return q(c.idOf(p.Elem()))
		}
		return q("NONE")
	})
	var sv, sp []string
	for _, id := range c.IDs {
		nt, ok := deref(c.Types[id]).(*types.Named)
		if !ok {
			continue
		}
		obj, _, indirect := types.LookupFieldOrMethod(nt, false, nt.Obj().Pkg(), "String")
		if f, ok := obj.(*types.Func); ok {
			sig := f.Type().(*types.Signature)
			if sig.Params().Len() == 0 && sig.Results().Len() == 1 && sig.Results().At(0).Type().String() == "string" {
				sv = append(sv, q(id))
			}
		} else if indirect {
			// String() exists with a pointer receiver only: callable on addressable operands
			sp = append(sp, q(id))
		}
	}
	fmt.Fprintf(&w, "HasStringV == {%s}\nHasStringP == {%s}\n", strings.Join(sv, ", "), strings.Join(sp, ", "))
	var imported []string
	for _, id := range c.IDs {
		if nt, ok := deref(c.Types[id]).(*types.Named); ok && nt.Obj().Pkg() != nil && nt.Obj().Pkg().Name() == "ext" {
			imported = append(imported, q(id))
		}
	}
	fmt.Fprintf(&w, "Imported == {%s}\n", strings.Join(imported, ", "))
	var flds []string
	for _, id := range c.IDs {
		st, ok := c.Types[id].Underlying().(*types.Struct)
		if !ok {
			continue
		}
		var fs []string
		for i := 0; i < st.NumFields(); i++ {
			ex := "FALSE"
			if st.Field(i).Exported() {
				ex = "TRUE"
			}
			fs = append(fs, fmt.Sprintf("[n |-> %s, t |-> %s, ex |-> %s]", q(st.Field(i).Name()), q(c.idOf(st.Field(i).Type())), ex))
		}
		ext := "FALSE"
		if nt, ok := c.Types[id].(*types.Named); ok && nt.Obj().Pkg().Name() == "ext" {
			ext = "TRUE"
		}
		flds = append(flds, fmt.Sprintf("%s :> [ext |-> %s, fs |-> <<%s>>]", q(id), ext, strings.Join(fs, ", ")))
	}
	fmt.Fprintf(&w, "Structs == %s\n", strings.Join(flds, " @@ "))
	w.WriteString("====\n")
	return w.String()
}
