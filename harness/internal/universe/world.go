package universe

import (
	"fmt"
	"go/ast"
	"go/parser"
	"go/token"
	"go/types"
	"sort"
	"strings"
)

// The "note world": a small set of struct types, getters and converter
// functions over which spec/Matching.tla walks destination structs and
// resolves explicit notations. As with the type alphabet, the Go source is
// declared once, type-checked with go/types, and both pasted into generated
// programs and rendered as constant tables (WorldTable.tla).

// WorldDeepSrc is a package the setup file never imports itself: its types are
// reached only through members of wext types (import path <module>/wdeep).
const WorldDeepSrc = `package wdeep

// TS and TD are nested source / destination types with an unexported member.
type TS struct {
	V int
	w int
}

type TD struct {
	V int
	U bool
	w int
}

func (t TS) w2() int { return t.w }
`

// WorldExtSrc is the imported package (import path <module>/wext).
const WorldExtSrc = `package wext

import "%MOD%/wdeep"

// hid is a type the generated package cannot write down.
type hid int

// labels cannot be written down either, but a value of it can be made as a []string.
type labels []string

// HoldS and HoldD hold members of types from a package the setup file does not import,
// and members whose types cannot be named outside this package.
type HoldS struct {
	In wdeep.TS
	k  int // hidden, and declared BEFORE the visible member that differs from it in case only
	K  int
	Tg labels
	Hs []hid
	T  int
	Hp *hid
}

type HoldD struct {
	In wdeep.TD
	K  int
	Tg labels
	Hs []hid
	T  hid
	Hp *hid
}

// profile and profileD are unexported struct types with exported members: the members of an
// Acct can be reached from another package, the types cannot be named there.
type profile struct {
	Email  string
	Age    int
	secret int
}

type profileD struct {
	Email  string
	Age    int
	secret int
}

// Acct and AcctD also hold an unnamed struct with a hidden member.
type Acct struct {
	Profile profile
	Anon    struct {
		hidden int
		Shown  int
	}
	id int
}

type AcctD struct {
	Profile profileD
	Anon    struct {
		hidden int
		Shown  int
		More   bool
	}
	id int
}

// Lk is a lock-like type: nothing in it can be seen from outside, and its methods have pointer receivers.
type Lk struct {
	state int
}

func (l *Lk) Lock()   {}
func (l *Lk) Unlock() {}

// XIn is an imported struct with an unexported member.
type XIn struct {
	X int
	y string
}

// XEmb is embedded into a local destination.
type XEmb struct {
	R int
	s int
}

func XConv(i int) string { return "x" }

func (x XIn) Gx() int { return x.X }

type XCode int

func (c XCode) String() string { return "c" }
`

// WorldLocalSrc is the local part (package name supplied by the caller).
const WorldLocalSrc = `
type NIn struct {
	X int
	Y string
}

type NIn2 struct {
	X int
	Y string
}

type NOut struct {
	X int
	Y string
	W bool
}

type Emb struct {
	Z int
	Q string
}

type Deep struct {
	In NIn
	K  int
}

type DeepOut struct {
	In NOut
	K  int
}

type Empty struct{}

type WInt int

func (w WInt) String() string { return "w" }

type SrcA struct {
	A  int
	A2 int
	B  string
	N  NIn
	P  *NIn
	Emb
	D Deep
	W WInt
	L []int
	u int
	_ int
	c int
	H wext.HoldS
	Q wdeep.TS
}

func (s SrcA) Gi() int          { return s.A }
func (s SrcA) Gs() string       { return s.B }
func (s *SrcA) Gp() int         { return s.A2 }
func (s SrcA) Ge() (int, error) { return s.A, nil }
func (s SrcA) Gn() NIn          { return s.N }
func (s SrcA) N3() NIn          { return s.N }
func (n *NIn) W() bool          { return n.X > 0 }
func (n *NIn) Pw() int          { return n.X }
func (s SrcA) Gv()              {}
func (s SrcA) C() int           { return s.u }

type ArgS struct {
	X int
	Y string
}

type DstA struct {
	A int
	B string
	C int
	N NOut
	S string
}

type DstB struct {
	A int
	B string
	C int
	N NIn
	L []int
}

type DstC struct {
	A int
	B string
	C int
	N NIn2
	D DeepOut
	E Empty
}

// QOut is a local struct whose unexported member has the same name as an
// unexported (hence invisible) member of the imported source type.
type QOut struct {
	V int
	w int
}

type DstD struct {
	A int
	Q QOut
	H wext.HoldD
	wext.XEmb
	X wext.XIn
	I struct {
		X int
		Y string
	}
	Z int
}

// DstE holds a struct member of the very type the source has (copyable as a
// whole) which itself has a struct member.
type DstE struct {
	A  int
	N3 NOut
	N  NOut
	_  int
	D Deep
	_ [2]byte
	K int
}

// LMine and LMineD are local types defined over imported structs: their members stay foreign.
type LMine wext.Acct

type LMineD wext.AcctD

// EmA holds Rev two embeddings deep, EmB holds it directly: in Go, src.Rev means EmB's (the shallowest one).
type EmIn struct{ Rev string }

type EmA struct{ EmIn }

type EmB struct{ Rev int }

type SrcF struct {
	// embedded structs: their members are not candidates of their own; declared first, so that a search that
	// goes by declaration order meets the deep Rev before the shallow one
	EmA
	EmB
	// a local unnamed struct that reads like the one inside wext.Acct - but its members are local
	La struct {
		hidden int
		Shown  int
	}
	Ac wext.Acct
	M  LMine
	Z  int
	Lz struct {
		hidden int
		Shown  int
	}
	Guard wext.Lk
}

type DstF struct {
	La struct {
		hidden int
		Shown  int
		More   bool
	}
	Ac wext.AcctD
	M  LMineD
	Z  int
	Lz struct {
		hidden int
		Shown  int
		More   bool
	}
	Guard wext.Lk
	Rev   string
}

func CvNIn(n NIn) NIn          { return NIn{X: n.X + 1, Y: n.Y} }
func CvII(i int) int           { return i + 1 }
func CvIS(i int) string        { return "s" }
func CvPI(p *int) int          { return *p }
func CvIE(i int) (int, error)  { return i, nil }
func CvNI(n NIn) int           { return n.X }
func CvPN(n *NIn) int          { return n.X }
func CvSI(s string) int        { return len(s) }
func CvNN(n NIn) NOut          { return NOut{X: n.X, Y: n.Y} }
func CvTwo(a, b int) int       { return a + b }
func CvNone() int              { return 0 }
func CvBad(i int) (int, int)   { return i, i }

var NotAFunc = 1
`

// WorldRoots are the (destination, source) root pairs explored.
var WorldRoots = [][2]string{{"DstA", "SrcA"}, {"DstB", "SrcA"}, {"DstC", "SrcA"}, {"DstD", "SrcA"}, {"DstE", "SrcA"}, {"DstF", "SrcF"}}

// WorldFuncs are the converter candidates named by :conv cases.
var WorldFuncs = []string{"CvII", "CvIS", "CvPI", "CvIE", "CvNI", "CvPN", "CvSI", "CvNN", "CvNIn", "CvTwo", "CvNone", "CvBad", "NotAFunc", "Missing", "wext.XConv"}

// WorldChecked is the type-checked world.
type WorldChecked struct {
	Pkg  *types.Package
	Ext  *types.Package
	ids  map[string]types.Type // type id -> type
	list []string
}

// CheckWorld type-checks the note world.
func CheckWorld() (*WorldChecked, error) {
	fset := token.NewFileSet()
	fd, err := parser.ParseFile(fset, "wdeep.go", WorldDeepSrc, 0)
	if err != nil {
		return nil, err
	}
	deep, err := (&types.Config{}).Check("w/wdeep", fset, []*ast.File{fd}, nil)
	if err != nil {
		return nil, err
	}
	fe, err := parser.ParseFile(fset, "wext.go", strings.ReplaceAll(WorldExtSrc, "%MOD%", "w"), 0)
	if err != nil {
		return nil, err
	}
	ext, err := (&types.Config{Importer: mapImporter{map[string]*types.Package{"w/wdeep": deep}}}).Check("w/wext", fset, []*ast.File{fe}, nil)
	if err != nil {
		return nil, err
	}
	src := "package w\n\nimport (\n\t\"w/wdeep\"\n\t\"w/wext\"\n)\n" + WorldLocalSrc
	fu, err := parser.ParseFile(fset, "w.go", src, 0)
	if err != nil {
		return nil, err
	}
	pkg, err := (&types.Config{Importer: mapImporter{map[string]*types.Package{"w/wext": ext, "w/wdeep": deep}}}).Check("w", fset, []*ast.File{fu}, nil)
	if err != nil {
		return nil, err
	}
	w := &WorldChecked{Pkg: pkg, Ext: ext, ids: map[string]types.Type{}}
	return w, nil
}

// id assigns (and memoises) a stable identifier to a type: its Go expression
// as written in the generated package.
func (w *WorldChecked) id(t types.Type) string {
	s := types.TypeString(t, func(p *types.Package) string {
		if p == w.Pkg {
			return ""
		}
		return p.Name()
	})
	s = strings.ReplaceAll(s, "interface{}", "any")
	// two types may read alike and still differ: an unnamed struct with unexported members declared in another
	// package is not the one declared here (the members belong to different packages)
	for prev, ok := w.ids[s]; ok && !types.Identical(prev, t); prev, ok = w.ids[s] {
		s += "'"
	}
	if _, ok := w.ids[s]; !ok {
		w.ids[s] = t
		w.list = append(w.list, s)
	}
	return s
}

func isErr(t types.Type) bool { return t.String() == "error" }

// Table renders WorldTable.tla.
func (w *WorldChecked) Table() string {
	var structs, funcs []string
	visitStruct := map[string]bool{}
	var structOrder []string
	var visit func(t types.Type)
	visit = func(t types.Type) {
		t0 := t
		if p, ok := t.(*types.Pointer); ok {
			t = p.Elem()
		}
		w.id(t0)
		st, ok := t.Underlying().(*types.Struct)
		if !ok {
			return
		}
		id := w.id(t)
		if visitStruct[id] {
			return
		}
		visitStruct[id] = true
		structOrder = append(structOrder, id)
		for i := 0; i < st.NumFields(); i++ {
			visit(st.Field(i).Type())
		}
		if nt, ok := t.(*types.Named); ok {
			for i := 0; i < nt.NumMethods(); i++ {
				sig := nt.Method(i).Type().(*types.Signature)
				for j := 0; j < sig.Results().Len(); j++ {
					visit(sig.Results().At(j).Type())
				}
			}
		}
	}
	scope := w.Pkg.Scope()
	for _, r := range WorldRoots {
		visit(scope.Lookup(r[0]).Type())
		visit(scope.Lookup(r[1]).Type())
		w.id(types.NewPointer(scope.Lookup(r[0]).Type()))
		w.id(types.NewPointer(scope.Lookup(r[1]).Type()))
	}
	visit(scope.Lookup("ArgS").Type())
	for _, b := range []string{"int", "string", "bool", "int64"} {
		w.id(types.Universe.Lookup(b).Type())
	}
	// functions
	for _, fn := range WorldFuncs {
		var obj types.Object
		name := fn
		if strings.HasPrefix(fn, "wext.") {
			obj = w.Ext.Scope().Lookup(strings.TrimPrefix(fn, "wext."))
		} else {
			obj = scope.Lookup(fn)
		}
		if obj == nil {
			funcs = append(funcs, fmt.Sprintf("%s :> [kind |-> \"missing\", params |-> << >>, results |-> << >>]", q(name)))
			continue
		}
		sig, ok := obj.Type().(*types.Signature)
		if !ok {
			funcs = append(funcs, fmt.Sprintf("%s :> [kind |-> \"notfunc\", params |-> << >>, results |-> << >>]", q(name)))
			continue
		}
		var ps, rs []string
		for i := 0; i < sig.Params().Len(); i++ {
			ps = append(ps, q(w.id(sig.Params().At(i).Type())))
			visit(sig.Params().At(i).Type())
		}
		for i := 0; i < sig.Results().Len(); i++ {
			rs = append(rs, q(w.id(sig.Results().At(i).Type())))
			visit(sig.Results().At(i).Type())
		}
		funcs = append(funcs, fmt.Sprintf("%s :> [kind |-> \"func\", params |-> <<%s>>, results |-> <<%s>>]", q(name), strings.Join(ps, ", "), strings.Join(rs, ", ")))
	}
	w.id(types.Universe.Lookup("error").Type())
	for _, id := range structOrder {
		t := w.ids[id]
		st := t.Underlying().(*types.Struct)
		var fs, gs []string
		for i := 0; i < st.NumFields(); i++ {
			f := st.Field(i)
			fs = append(fs, fmt.Sprintf("[n |-> %s, t |-> %s, ex |-> %s, emb |-> %s, vis |-> %s]", q(f.Name()), q(w.id(f.Type())), tlaBool(f.Exported()), tlaBool(f.Embedded()),
				tlaBool(f.Exported() || f.Pkg() == w.Pkg)))
		}
		ext := false
		if nt, ok := t.(*types.Named); ok {
			ext = nt.Obj().Pkg() != w.Pkg
			for i := 0; i < nt.NumMethods(); i++ {
				m := nt.Method(i)
				sig := m.Type().(*types.Signature)
				_, ptrRecv := sig.Recv().Type().(*types.Pointer)
				res := "NONE"
				retErr := false
				valid := sig.Params().Len() == 0 && (sig.Results().Len() == 1 || (sig.Results().Len() == 2 && isErr(sig.Results().At(1).Type())))
				if sig.Results().Len() >= 1 {
					res = w.id(sig.Results().At(0).Type())
				}
				if sig.Results().Len() == 2 {
					retErr = true
				}
				// default getter: no parameter and exactly one non-error result
				getter := sig.Params().Len() == 0 && sig.Results().Len() == 1 && !isErr(sig.Results().At(0).Type())
				gs = append(gs, fmt.Sprintf("[n |-> %s, t |-> %s, err |-> %s, ptr |-> %s, ex |-> %s, callable |-> %s, getter |-> %s, vis |-> %s]",
					q(m.Name()), q(res), tlaBool(retErr), tlaBool(ptrRecv), tlaBool(m.Exported()), tlaBool(valid), tlaBool(getter), tlaBool(m.Exported() || m.Pkg() == w.Pkg)))
			}
		}
		structs = append(structs, fmt.Sprintf("%s :> [ext |-> %s, fs |-> <<%s>>, ms |-> <<%s>>]", q(id), tlaBool(ext), strings.Join(fs, ", "), strings.Join(gs, ", ")))
	}
	// relations over all types seen
	sort.Strings(w.list)
	var asg, cnv, ids, ptrs, strv, slices []string
	for _, a := range w.list {
		ids = append(ids, q(a))
		if p, ok := w.ids[a].(*types.Pointer); ok {
			ptrs = append(ptrs, fmt.Sprintf("%s :> %s", q(a), q(w.id(p.Elem()))))
		}
		if nt, ok := deref(w.ids[a]).(*types.Named); ok {
			obj, _, _ := types.LookupFieldOrMethod(nt, false, nt.Obj().Pkg(), "String")
			if f, ok := obj.(*types.Func); ok {
				sig := f.Type().(*types.Signature)
				if sig.Params().Len() == 0 && sig.Results().Len() == 1 && sig.Results().At(0).Type().String() == "string" {
					strv = append(strv, q(a))
				}
			}
		}
		if _, ok := w.ids[a].Underlying().(*types.Slice); ok {
			slices = append(slices, q(a))
		}
	}
	// the loop above may have added pointer element ids; iterate over a fixed snapshot
	snapshot := append([]string(nil), w.list...)
	sort.Strings(snapshot)
	for _, a := range snapshot {
		for _, b := range snapshot {
			if types.AssignableTo(w.ids[a], w.ids[b]) {
				asg = append(asg, "<<"+q(a)+","+q(b)+">>")
			} else if types.ConvertibleTo(w.ids[a], w.ids[b]) {
				cnv = append(cnv, "<<"+q(a)+","+q(b)+">>")
			}
		}
	}
	var kinds []string
	for _, a := range snapshot {
		k := "other"
		switch w.ids[a].(type) {
		case *types.Basic:
			k = "basic"
		case *types.Named:
			k = "named"
		case *types.Pointer:
			k = "ptr"
		case *types.Slice:
			k = "slice"
		case *types.Struct:
			k = "struct"
		}
		kinds = append(kinds, fmt.Sprintf("%s :> %s", q(a), q(k)))
	}
	var sb strings.Builder
	sb.WriteString("---- MODULE WorldTable ----\n(* generated by harness/internal/universe (world.go) from go/types; do not edit *)\nEXTENDS TLC\n")
	ids = ids[:0]
	for _, a := range snapshot {
		ids = append(ids, q(a))
	}
	fmt.Fprintf(&sb, "WTypes == {%s}\n", strings.Join(ids, ", "))
	fmt.Fprintf(&sb, "WAssignable == {%s}\n", strings.Join(asg, ", "))
	fmt.Fprintf(&sb, "WConvertibleOnly == {%s}\n", strings.Join(cnv, ", "))
	fmt.Fprintf(&sb, "WKind == %s\n", strings.Join(kinds, " @@ "))
	if len(ptrs) == 0 {
		sb.WriteString("WPtrElem == [x \\in {} |-> \"\"]\n")
	} else {
		fmt.Fprintf(&sb, "WPtrElem == %s\n", strings.Join(ptrs, " @@ "))
	}
	fmt.Fprintf(&sb, "WHasStringV == {%s}\n", strings.Join(strv, ", "))
	fmt.Fprintf(&sb, "WSlices == {%s}\n", strings.Join(slices, ", "))
	var selems []string
	for _, a := range snapshot {
		if sl, ok := w.ids[a].Underlying().(*types.Slice); ok {
			selems = append(selems, fmt.Sprintf("%s :> %s", q(a), q(w.id(sl.Elem()))))
		}
	}
	if len(selems) == 0 {
		sb.WriteString("WSliceElem == [x \\in {} |-> \"\"]\n")
	} else {
		fmt.Fprintf(&sb, "WSliceElem == %s\n", strings.Join(selems, " @@ "))
	}
	// types the generated package can write down: a defined type of another package has to be exported
	var nameable []string
	for _, a := range snapshot {
		if w.canName(w.ids[a]) {
			nameable = append(nameable, q(a))
		}
	}
	fmt.Fprintf(&sb, "WNameable == {%s}\n", strings.Join(nameable, ", "))
	fmt.Fprintf(&sb, "WStructs == %s\n", strings.Join(structs, " @@ "))
	fmt.Fprintf(&sb, "WFuncs == %s\n", strings.Join(funcs, " @@ "))
	// lower-casing table for every name of the world and for pattern spellings
	names := map[string]bool{"Nope": true, "Nowhere": true, "$": true}
	for _, id := range structOrder {
		st := w.ids[id].Underlying().(*types.Struct)
		for i := 0; i < st.NumFields(); i++ {
			names[st.Field(i).Name()] = true
		}
		if nt, ok := w.ids[id].(*types.Named); ok {
			for i := 0; i < nt.NumMethods(); i++ {
				names[nt.Method(i).Name()] = true
			}
		}
	}
	for n := range names {
		names[strings.ToLower(n)] = true
		names[strings.ToUpper(n)] = true
	}
	var lows []string
	for n := range names {
		lows = append(lows, fmt.Sprintf("%s :> %s", q(n), q(strings.ToLower(n))))
	}
	sort.Strings(lows)
	fmt.Fprintf(&sb, "WLower == %s\n", strings.Join(lows, " @@ "))
	var roots []string
	for _, r := range WorldRoots {
		roots = append(roots, fmt.Sprintf("<<%s, %s>>", q(r[0]), q(r[1])))
	}
	fmt.Fprintf(&sb, "WRoots == {%s}\n", strings.Join(roots, ", "))
	sb.WriteString("====\n")
	return sb.String()
}

func (w *WorldChecked) canName(t types.Type) bool {
	switch x := t.(type) {
	case *types.Pointer:
		return w.canName(x.Elem())
	case *types.Slice:
		return w.canName(x.Elem())
	case *types.Array:
		return w.canName(x.Elem())
	case *types.Map:
		return w.canName(x.Key()) && w.canName(x.Elem())
	case *types.Named:
		return x.Obj().Pkg() == nil || x.Obj().Pkg() == w.Pkg || x.Obj().Exported()
	}
	return true
}

func tlaBool(b bool) string {
	if b {
		return "TRUE"
	}
	return "FALSE"
}
