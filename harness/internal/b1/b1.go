// Package b1 is binding B1 (case replay, spec -> code): abstract cases printed
// by TLC are concretised as interface methods, packed into setup files, run
// through the real tool, and the generated functions are projected back to
// the specification's vocabulary. Mismatches seen in a packed run are
// confirmed in isolation before they count.
package b1

import (
	"encoding/json"
	"fmt"
	"os"
	"path/filepath"
	"regexp"
	"sort"
	"strconv"
	"strings"
	"sync"

	"verif/internal/core"
	"verif/internal/project"
	"verif/internal/universe"
)

// Case is one concretised abstract case: one interface method with its types.
type Case struct {
	ID        string
	JSON      json.RawMessage
	Func      string   // key of the generated function ("M12" or "S12.M12")
	Style     string   // style the specification predicts for the header ("return" | "arg"), for role mapping
	Decls     string   // declarations for the untagged sibling file
	SetupDecl string   // declarations placed in the setup file itself (before the interface)
	Trailer   string   // text placed at the end of the setup file (a further converter interface of the case's own)
	IntfNotes []string // interface-level notation lines; forces the case to travel alone
	Notes     []string // method doc lines without the leading "// "
	Method    string   // method spec, e.g. "M12(*S12) *D12"
	Alone     bool     // travels alone (predicted rejection / crash-prone)
	Data      any      // family-specific
	// Group names a second converter interface (marked with :convergen, declared ABOVE interface Convergen and
	// sorting before it) that holds this case's method; GroupNotes are its interface-level notation lines
	// (identical for all cases of a group).
	Group      string
	GroupNotes []string
	// Embedded: the method is declared in an unmarked interface (ZzEmbedded, below interface Convergen) that
	// interface Convergen embeds - it belongs to the converter's method set all the same.
	Embedded bool
}

// Result is the observation of one case.
type Result struct {
	Case        *Case
	Exit        int
	Stderr      string
	Crashed     bool
	TimedOut    bool
	Output      string        // generated file ("" if none)
	Fn          *project.Func // nil if the function is missing or the run failed
	ParseErr    string        // output is not parseable Go
	CompileErrs []string      // compiler diagnostics attributed to this function (when Compile)
	Unformatted bool          // gofmt would change the output (when Compile)
	SetupPath   string        // absolute path of the setup file of this run
	SetupLine   int           // line of the method in the setup file
	NoteLines   []int         // line of each notation in the setup file
	Files       map[string]string
	Isolated    bool
}

// Verdict is a family's judgement of one result.
type Verdict struct {
	OK         bool
	Deviation  string // named deviation (known finding id) the mismatch falls under, if any
	What       string
	Nontrivial string // non-empty: key under which this case counts as distinct non-trivial
}

// Options of a packed run.
type Options struct {
	Name    string
	PerFile int
	Compile bool // also judge gofmt and go build of every output
	Family  string
	// Local is the declaration prelude pasted into the untagged sibling file
	// (default: the type alphabet universe.LocalSrc); Ext maps the name of each
	// imported package of the scratch module to its source (default: ext).
	Local string
	Ext   map[string]string
	// Imports are further imported packages whose import path, declared name
	// and name in the setup file need not coincide (Signature.tla Imports).
	Imports []ExtPkg
	// TypeNames are further names the projector treats as types (conversions).
	TypeNames []string
	// IsoContext returns further cases that accompany a suspect when it is re-run in isolation (their own
	// results are ignored): families whose cases interact through a second interface keep that context.
	IsoContext func(*Case) []*Case
}

// ExtPkg is one imported package of the scratch module: Path is relative to
// the module, Src declares its own package name, Alias is the explicit name in
// the import declaration ("" for none).
type ExtPkg struct {
	Path, Alias, Src string
}

var rePkgClause = regexp.MustCompile(`(?m)^package (\w+)`)

// Qual is the name by which code refers to the package.
func (e ExtPkg) Qual() string {
	if e.Alias != "" {
		return e.Alias
	}
	return rePkgClause.FindStringSubmatch(e.Src)[1]
}

func (e ExtPkg) file() string { return e.Path + "/" + rePkgClause.FindStringSubmatch(e.Src)[1] + ".go" }

// exts is the complete list of imported packages, sorted by path.
func (o *Options) exts() []ExtPkg {
	var out []ExtPkg
	for n, src := range o.Ext {
		out = append(out, ExtPkg{Path: n, Src: src})
	}
	out = append(out, o.Imports...)
	sort.Slice(out, func(i, j int) bool { return out[i].Path < out[j].Path })
	return out
}

func (o *Options) defaults() {
	if o.Local == "" {
		o.Local = universe.LocalSrc
	}
	if o.Ext == nil {
		o.Ext = map[string]string{"ext": universe.ExtSrc}
	}
}

// Stats of a run.
type Stats struct {
	Cases     int
	Files     int
	Isolated  int
	Mismatch  int
	Functions int
}

const modPath = "b1m"

// TypeNames known to the projector for the universe.
func TypeNames() []string {
	names := []string{"MyInt", "MyStr", "LS1", "LS2", "LS3", "LS4", "Tags", "Str", "ext.XInt", "ext.XStr", "ext.XS", "ext.XE", "ext.XA"}
	return names
}

type pack struct {
	dir   string
	cases []*Case
	res   *core.RunResult
}

var reIdentBefore = regexp.MustCompile(`[A-Za-z0-9_]$`)

// usesPkg reports whether any text refers to package name (as "name.").
func usesPkg(name string, texts ...string) bool {
	for _, t := range texts {
		for i := 0; ; {
			j := strings.Index(t[i:], name+".")
			if j < 0 {
				break
			}
			if i+j == 0 || !reIdentBefore.MatchString(t[:i+j]) {
				return true
			}
			i += j + 1
		}
	}
	return false
}

// importBlock imports every package of opt.Ext that code refers to; packages
// referred to by notation comments only are imported blank (the idiom the
// tool documents for converters and hooks of other packages).
func importBlock(opt *Options, comments string, texts ...string) string {
	var sb strings.Builder
	for _, e := range opt.exts() {
		n := e.Qual()
		switch {
		case usesPkg(n, texts...) && e.Alias != "":
			sb.WriteString("import " + e.Alias + " \"" + modPath + "/" + e.Path + "\"\n")
		case usesPkg(n, texts...):
			sb.WriteString("import \"" + modPath + "/" + e.Path + "\"\n")
		case usesPkg(n, comments):
			sb.WriteString("import _ \"" + modPath + "/" + e.Path + "\"\n")
		}
	}
	if sb.Len() > 0 {
		sb.WriteString("\n")
	}
	return sb.String()
}

// render writes one package directory for the given cases.
func render(opt *Options, dir, pkg string, cases []*Case) (files map[string]string, methodLine map[string]int, noteLines map[string][]int) {
	var setup, sib strings.Builder
	var body strings.Builder
	var sdecl strings.Builder
	for _, c := range cases {
		sib.WriteString(c.Decls)
		sib.WriteString("\n")
		sdecl.WriteString(c.SetupDecl)
	}
	setup.WriteString("//go:build convergen\n\npackage " + pkg + "\n\n")
	var methodText, noteText strings.Builder
	for _, c := range cases {
		for _, n := range c.Notes {
			noteText.WriteString(n + "\n")
		}
		for _, n := range c.IntfNotes {
			noteText.WriteString(n + "\n")
		}
		methodText.WriteString(c.Method + "\n")
	}
	setup.WriteString(importBlock(opt, noteText.String(), methodText.String(), sdecl.String()))
	setup.WriteString(sdecl.String())
	methodLine = map[string]int{}
	noteLines = map[string][]int{}
	line := strings.Count(setup.String(), "\n") + 1
	if len(cases) == 1 {
		for _, n := range cases[0].IntfNotes {
			body.WriteString("// " + n + "\n")
			line++
		}
	}
	writeCase := func(c *Case) {
		for _, n := range c.Notes {
			body.WriteString("\t// " + n + "\n")
			noteLines[c.ID] = append(noteLines[c.ID], line)
			line++
		}
		body.WriteString("\t" + c.Method + "\n")
		// a case may bring a companion method above its own (Method spans several lines): the case's method is the last
		line += strings.Count(c.Method, "\n")
		methodLine[c.ID] = line
		line++
	}
	// grouped cases first, each group in an interface of its own
	var groups []string
	seenGroup := map[string]bool{}
	plain := 0
	for _, c := range cases {
		if c.Group == "" {
			plain++
		} else if !seenGroup[c.Group] {
			seenGroup[c.Group] = true
			groups = append(groups, c.Group)
		}
	}
	sort.Strings(groups)
	for _, g := range groups {
		first := true
		for _, c := range cases {
			if c.Group != g {
				continue
			}
			if first {
				body.WriteString("// :convergen\n")
				line++
				for _, n := range c.GroupNotes {
					body.WriteString("// " + n + "\n")
					line++
				}
				body.WriteString("type " + g + " interface {\n")
				line++
				first = false
			}
			writeCase(c)
		}
		body.WriteString("}\n\n")
		line += 2
	}
	nEmb := 0
	for _, c := range cases {
		if c.Group == "" && c.Embedded {
			nEmb++
		}
	}
	if plain > 0 || len(groups) == 0 {
		body.WriteString("type Convergen interface {\n")
		line++
		if nEmb > 0 {
			body.WriteString("\tZzEmbedded\n")
			line++
		}
		for _, c := range cases {
			if c.Group == "" && !c.Embedded {
				writeCase(c)
			}
		}
	}
	if plain > 0 || len(groups) == 0 {
		body.WriteString("}\n")
		line++
	}
	if nEmb > 0 {
		body.WriteString("\n// ZzEmbedded is no converter interface itself.\ntype ZzEmbedded interface {\n")
		line += 3
		for _, c := range cases {
			if c.Group == "" && c.Embedded {
				writeCase(c)
			}
		}
		body.WriteString("}\n")
	}
	setup.WriteString(body.String())
	for _, c := range cases {
		setup.WriteString(c.Trailer)
	}
	var sibHead strings.Builder
	sibHead.WriteString("package " + pkg + "\n\n")
	sibText := opt.Local + "\n" + sib.String()
	sibHead.WriteString(importBlock(opt, "", sibText))
	files = map[string]string{
		filepath.Join(dir, "setup.go"): setup.String(),
		filepath.Join(dir, "cases.go"): sibHead.String() + sibText,
	}
	return
}

var reDiag = regexp.MustCompile(`^(?:\./)?([^:\s]+\.go):(\d+):(\d+): (.*)$`)

// Run executes the cases and calls judge for each result. Mismatches of a
// packed run are re-run alone; only mismatches that reproduce in isolation
// are reported (with a replay file).
func Run(c *core.Ctx, opt Options, cases []*Case, judge func(*Result) Verdict) Stats {
	tool := c.EnsureTool()
	opt.defaults()
	if opt.PerFile <= 0 {
		opt.PerFile = 60
	}
	// the checkout directory is none of the tool's business; its name holds characters that are special to
	// formatting verbs, so that a path pushed through a format string twice does not come out the same
	root := filepath.Join(c.Scratch, "b1-"+opt.Name+"-100%d%20s")
	mod := core.NewModule(root, modPath)
	for _, e := range opt.exts() {
		_ = core.WriteFiles(root, map[string]string{e.file(): e.Src})
	}
	var packs []*pack
	var cur *pack
	n := 0
	newPack := func() *pack {
		n++
		p := &pack{dir: fmt.Sprintf("p%05d", n)}
		packs = append(packs, p)
		return p
	}
	for _, cs := range cases {
		if cs.Alone || len(cs.IntfNotes) > 0 {
			p := newPack()
			p.cases = []*Case{cs}
			continue
		}
		if cur == nil || len(cur.cases) >= opt.PerFile {
			cur = newPack()
		}
		cur.cases = append(cur.cases, cs)
	}
	st := Stats{Cases: len(cases), Files: len(packs)}
	mline := map[string]int{}
	nlines := map[string][]int{}
	allFiles := map[string]string{}
	for _, p := range packs {
		files, ml, nl := render(&opt, p.dir, "p", p.cases)
		for k, v := range files {
			allFiles[k] = v
		}
		for k, v := range ml {
			mline[k] = v
		}
		for k, v := range nl {
			nlines[k] = v
		}
	}
	if err := core.WriteFiles(root, allFiles); err != nil {
		core.Machinery("write cases: %v", err)
	}
	// inputs must type-check WITH the tag; otherwise the harness produced nonsense
	if out, ok := mod.GoVet("convergen", "./..."); !ok {
		core.Machinery("%s: generated inputs do not type-check (harness bug):\n%s", opt.Name, firstN(out, 30))
	}
	core.ParallelFor(len(packs), func(i int) {
		packs[i].res = tool.Run(core.RunOpts{Dir: filepath.Join(root, packs[i].dir), Args: []string{"setup.go"}})
	})
	// compile judge over all outputs at once
	compileErrs := map[string][]string{} // dir -> diagnostics lines
	unformatted := map[string]bool{}
	if opt.Compile {
		out, _ := mod.GoBuild("", "./...")
		for _, l := range strings.Split(out, "\n") {
			if m := reDiag.FindStringSubmatch(strings.TrimSpace(l)); m != nil {
				d := filepath.Dir(m[1])
				compileErrs[d] = append(compileErrs[d], l)
			}
		}
		var gens []string
		for _, p := range packs {
			g := filepath.Join(root, p.dir, "setup.gen.go")
			if _, err := os.Stat(g); err == nil {
				gens = append(gens, g)
			}
		}
		for i := 0; i < len(gens); i += 200 {
			j := i + 200
			if j > len(gens) {
				j = len(gens)
			}
			out, _ := core.Gofmt(gens[i:j]...)
			for _, l := range strings.Split(out, "\n") {
				if l = strings.TrimSpace(l); l != "" {
					unformatted[filepath.Base(filepath.Dir(l))] = true
				}
			}
		}
	}
	var mu sync.Mutex
	var suspects []*Case
	results := map[string]*Result{}
	core.ParallelFor(len(packs), func(i int) {
		p := packs[i]
		rs := observe(&opt, root, p, mline, nlines, compileErrs[p.dir], unformatted[p.dir])
		for _, r := range rs {
			v := judge(r)
			mu.Lock()
			st.Functions++
			if v.Nontrivial != "" {
				c.Nontrivial(v.Nontrivial)
			}
			if !v.OK {
				if len(p.cases) == 1 {
					r.Isolated = true
					results[r.Case.ID] = r
				}
				suspects = append(suspects, r.Case)
			}
			mu.Unlock()
		}
	})
	sort.Slice(suspects, func(i, j int) bool { return suspects[i].ID < suspects[j].ID })
	// confirm in isolation
	type conf struct {
		r *Result
		v Verdict
	}
	var confirmed []conf
	core.ParallelFor(len(suspects), func(i int) {
		cs := suspects[i]
		mu.Lock()
		r := results[cs.ID]
		mu.Unlock()
		if r == nil {
			dir := fmt.Sprintf("iso%05d", i)
			isoCases := []*Case{cs}
			if opt.IsoContext != nil && !cs.Alone {
				isoCases = append(isoCases, opt.IsoContext(cs)...)
			}
			files, ml, nl := render(&opt, dir, "p", isoCases)
			_ = core.WriteFiles(root, files)
			p := &pack{dir: dir, cases: isoCases}
			p.res = tool.Run(core.RunOpts{Dir: filepath.Join(root, dir), Args: []string{"setup.go"}})
			var cerrs []string
			unf := false
			if opt.Compile {
				out, _ := mod.GoBuild("", "./"+dir)
				for _, l := range strings.Split(out, "\n") {
					if reDiag.MatchString(strings.TrimSpace(l)) {
						cerrs = append(cerrs, l)
					}
				}
				if o, _ := core.Gofmt(filepath.Join(root, dir, "setup.gen.go")); strings.TrimSpace(o) != "" {
					unf = true
				}
			}
			r = observe(&opt, root, p, ml, nl, cerrs, unf)[0]
			r.Isolated = true
			mu.Lock()
			st.Isolated++
			mu.Unlock()
		}
		v := judge(r)
		if v.OK {
			return
		}
		mu.Lock()
		confirmed = append(confirmed, conf{r, v})
		mu.Unlock()
	})
	sort.Slice(confirmed, func(i, j int) bool { return confirmed[i].r.Case.ID < confirmed[j].r.Case.ID })
	// report, grouped by message class to keep output readable; one replay per case
	for _, cf := range confirmed {
		st.Mismatch++
		files := map[string]string{}
		for k, v := range cf.r.Files {
			files[k] = v
		}
		p := c.WriteReplay(cf.r.Case.ID, &core.ReplayFile{Family: opt.Family, Case: cf.r.Case.JSON, Files: files,
			Command:  []string{"convergen", "setup.go"},
			Observed: map[string]any{"exit": cf.r.Exit, "stderr": firstN(cf.r.Stderr, 6), "function": fnText(cf.r)},
			Diff:     cf.v.What})
		c.Report(cf.v.Deviation, cf.v.What, p)
	}
	c.AddCount("traces_validated_against_impl", int64(st.Functions))
	c.AddCount("evaluations", int64(st.Functions))
	c.AddCount("tool_runs", int64(len(packs)+st.Isolated))
	return st
}

func fnText(r *Result) string {
	if r.Fn != nil {
		return r.Fn.Text
	}
	return ""
}

func firstN(s string, n int) string {
	lines := strings.Split(strings.TrimSpace(s), "\n")
	if len(lines) > n {
		lines = append(lines[:n], "...")
	}
	return strings.Join(lines, "\n")
}

// observe reads the outcome of one pack and produces one Result per case.
func observe(opt *Options, root string, p *pack, mline map[string]int, nlines map[string][]int, cerrs []string, unformatted bool) []*Result {
	dir := filepath.Join(root, p.dir)
	files := map[string]string{"go.mod": "module " + modPath + "\n\ngo 1.19\n"}
	for _, e := range opt.exts() {
		files[e.file()] = e.Src
	}
	for _, fn := range []string{"setup.go", "cases.go"} {
		b, _ := os.ReadFile(filepath.Join(dir, fn))
		files[filepath.Join("p", fn)] = string(b)
	}
	base := Result{Exit: p.res.Exit, Stderr: p.res.Stderr, Crashed: p.res.Crashed(), TimedOut: p.res.TimedOut,
		SetupPath: filepath.Join(dir, "setup.go"), Unformatted: unformatted}
	var pf *project.File
	if p.res.Exit == 0 && !p.res.TimedOut {
		b, err := os.ReadFile(filepath.Join(dir, "setup.gen.go"))
		if err == nil {
			base.Output = string(b)
			f, perr := project.Parse(b, append(TypeNames(), opt.TypeNames...))
			if perr != nil {
				base.ParseErr = perr.Error()
			} else {
				styles := map[string]string{}
				for _, c := range p.cases {
					styles[c.Func] = c.Style
				}
				f.Project(func(key string) string { return styles[key] })
				pf = f
			}
		}
	}
	// attribute compiler diagnostics to functions by line
	type span struct {
		lo, hi int
		key    string
	}
	var spans []span
	if pf != nil {
		lineOf := func(off int) int { return strings.Count(base.Output[:off], "\n") + 1 }
		idx := 0
		for _, fn := range pf.Funcs {
			i := strings.Index(base.Output[idx:], fn.Text)
			if i < 0 {
				continue
			}
			lo := lineOf(idx + i)
			hi := lo + strings.Count(fn.Text, "\n")
			spans = append(spans, span{lo, hi, fn.Key()})
			idx += i + len(fn.Text)
		}
	}
	perFn := map[string][]string{}
	var fileLevel []string
	for _, l := range cerrs {
		m := reDiag.FindStringSubmatch(strings.TrimSpace(l))
		if m == nil || filepath.Base(m[1]) != "setup.gen.go" {
			fileLevel = append(fileLevel, l)
			continue
		}
		ln, _ := strconv.Atoi(m[2])
		hit := false
		for _, s := range spans {
			if s.lo <= ln && ln <= s.hi {
				perFn[s.key] = append(perFn[s.key], m[4])
				hit = true
				break
			}
		}
		if !hit {
			fileLevel = append(fileLevel, l)
		}
	}
	var out []*Result
	for _, cs := range p.cases {
		r := base
		r.Case = cs
		r.Files = files
		r.SetupLine = mline[cs.ID]
		r.NoteLines = nlines[cs.ID]
		if pf != nil {
			r.Fn = pf.Func(cs.Func)
			r.CompileErrs = append(append([]string(nil), perFn[cs.Func]...), fileLevel...)
		}
		rr := r
		out = append(out, &rr)
	}
	return out
}
