package fsreplay

import (
	"bytes"
	"crypto/sha1"
	"encoding/hex"
	"fmt"
	"io/fs"
	"os"
	"path/filepath"
	"sort"
	"strconv"
	"strings"
	"time"

	"verif/internal/core"
)

// State is the abstract state of spec/CLI.tla.
type State struct {
	Setup string `json:"setup"`
	OutD  string `json:"outD"`
	OutC  string `json:"outC"`
	LogD  string `json:"logD"`
	LogC  string `json:"logC"`
	Rest  string `json:"rest"`
	Last  struct {
		Exit   string `json:"exit"`
		Stdout string `json:"stdout"`
	} `json:"last"`
}

// Flags of one run.
type Flags struct {
	Dry   bool `json:"dry"`
	Print bool `json:"print"`
	Log   bool `json:"log"`
	Out   bool `json:"out"`
}

// Action is one action of the model.
type Action struct {
	A   string `json:"a"`
	V   string `json:"v,omitempty"`
	K   string `json:"k,omitempty"`
	G   string `json:"g,omitempty"`
	B   string `json:"b,omitempty"`
	F   *Flags `json:"f,omitempty"`
	Sp  string `json:"sp,omitempty"`
	Cwd string `json:"cwd,omitempty"`
}

func (a Action) String() string {
	switch a.A {
	case "run":
		var fl []string
		if a.F.Dry {
			fl = append(fl, "-dry")
		}
		if a.F.Print {
			fl = append(fl, "-print")
		}
		if a.F.Log {
			fl = append(fl, "-log")
		}
		if a.F.Out {
			fl = append(fl, "-out")
		}
		return fmt.Sprintf("run[%s sp=%s cwd=%s]", strings.Join(fl, " "), a.Sp, a.Cwd)
	case "edit":
		return "edit[" + a.V + "]"
	case "crash", "crashC":
		return a.A + "[" + a.K + "]"
	case "corrupt":
		return "corrupt[" + a.G + "]"
	case "blockC":
		return "blockC[" + a.B + "]"
	}
	return a.A
}

// Binding fixes how abstract versions map to concrete inputs and holds the
// reference outputs (the tool's own output on an empty path).
type Binding struct {
	Tool     *core.Tool
	Versions map[string]Input  // "v1" -> input
	Ref      map[string][]byte // "v1" -> reference bytes
	RefErr   map[string]string // stderr of the reference run
	Trunc    map[string]int    // truncation point name -> byte offset (for v-independent classes: resolved per version)
	Flaky    []string          // reference runs that did not agree with themselves
	scratch  string
	n        int
	Stem     string // the setup file is <Stem>.go; the documented default output <Stem>.gen.go
	// Placement is how content gets to an output path (CLI.tla constant Placement): "" or "file" - a regular
	// file; "link" - the path is a symbolic link to a file of a collection directory outside the module
	Placement string
	// OutCSameDir puts the -out path into the directory of the package itself (custom.go next to the setup file)
	// instead of a directory of its own below it; only for models without the state "noparent"
	OutCSameDir bool
	// BareMod writes the module file without a go line (`module fsw` alone): a file the go command would
	// complete if it were allowed to write it
	BareMod bool
	// Env is appended to the environment of every run (later entries win: "GOFLAGS=" runs the tool with the
	// go command's own defaults instead of the -mod=mod this sandbox exports)
	Env []string
}

// TolerateFailedReference lets a binding survive an accepted input whose reference run fails with diagnostics
// that differ from run to run: the binding records it (Flaky) and carries on without that input's reference.
var TolerateFailedReference bool

// NewBinding computes the reference outputs for the accepted versions.
func NewBinding(scratch string, tool *core.Tool, versions map[string]Input) *Binding {
	return NewBindingStem(scratch, tool, versions, "setup")
}

// NewBindingStem is NewBinding for a setup file called <stem>.go. The reference outputs are written with an
// explicit -out at the documented default path (<stem>.gen.go), so that they do not depend on how the tool
// derives that path itself.
func NewBindingStem(scratch string, tool *core.Tool, versions map[string]Input, stem string) *Binding {
	b := &Binding{Tool: tool, Versions: versions, Ref: map[string][]byte{}, RefErr: map[string]string{}, scratch: scratch, Stem: stem}
	for name, in := range versions {
		if !in.Accepts {
			continue
		}
		w := b.NewWorld()
		w.materialise(State{Setup: name, OutD: "absent", OutC: "absent", LogD: "absent", LogC: "absent", Rest: "clean"})
		refArgs := []string{"-out", stem + ".gen.go", stem + ".go"}
		res := tool.Run(core.RunOpts{Dir: filepath.Join(w.Root, pkgDir), Args: refArgs})
		for attempt := 0; attempt < 4 && (res.Exit != 0 || res.TimedOut); attempt++ {
			// identical runs that do not agree are a finding of their own (C13); remember it and try again
			first := res
			res = tool.Run(core.RunOpts{Dir: filepath.Join(w.Root, pkgDir), Args: refArgs})
			if res.Exit == 0 && !res.TimedOut {
				b.Flaky = append(b.Flaky, fmt.Sprintf("input %s: two identical runs on a pristine directory ended with exit %d (%s) and exit 0", in.Name, first.Exit, firstLines(first.Stderr, 1)))
			}
		}
		if res.Exit != 0 || res.TimedOut {
			// a rejected "accepted" input is not this binding's business (C03 judges acceptance) - unless the
			// rejection itself differs between identical runs, which is a finding of its own (C13)
			again := tool.Run(core.RunOpts{Dir: filepath.Join(w.Root, pkgDir), Args: refArgs})
			if TolerateFailedReference && again.Exit != 0 && again.Stderr != res.Stderr {
				b.Flaky = append(b.Flaky, fmt.Sprintf("input %s: two identical runs on a pristine directory printed different diagnostics (exit %d: %s / exit %d: %s)", in.Name,
					res.Exit, firstLines(res.Stderr, 1), again.Exit, firstLines(again.Stderr, 1)))
				b.Ref[name] = nil
				w.Remove()
				continue
			}
			core.Machinery("reference run of accepted input %q (%s) failed: exit %d: %s", name, in.Name, res.Exit, res.Stderr)
		}
		ref, err := os.ReadFile(w.outDPath())
		if err != nil {
			core.Machinery("reference run of %q wrote no output: %v", name, err)
		}
		b.Ref[name] = ref
		b.RefErr[name] = res.Stderr
		w.Remove()
	}
	return b
}

// World is one materialised module directory.
type World struct {
	b       *Binding
	Root    string
	TmpDir  string
	HomeDir string
	cur     string // current setup version
}

// NewWorld creates an empty world directory.
func (b *Binding) NewWorld() *World {
	b.n++
	root := filepath.Join(b.scratch, fmt.Sprintf("w%06d-%d", b.n, time.Now().UnixNano()%1000000))
	w := &World{b: b, Root: filepath.Join(root, "mod"), TmpDir: filepath.Join(root, "tmp"), HomeDir: filepath.Join(root, "home")}
	_ = os.MkdirAll(w.Root, 0o755)
	_ = os.MkdirAll(w.TmpDir, 0o755)
	_ = os.MkdirAll(w.HomeDir, 0o755)
	// the module is also reachable through a linked directory (input spelling "link")
	_ = os.Symlink("mod", w.linkRoot())
	return w
}

// linkRoot is a symbolic link to the module root, next to it.
func (w *World) linkRoot() string { return filepath.Join(filepath.Dir(w.Root), "lnk") }

// viaLink spells a path below the module root through the linked directory.
func (w *World) viaLink(p string) string {
	r, err := filepath.Rel(w.Root, p)
	if err != nil || strings.HasPrefix(r, "..") {
		return p
	}
	return filepath.Join(w.linkRoot(), r)
}

// storePath is where the content of an output path lies under Placement "link".
func (w *World) storePath(path string) string {
	r, _ := filepath.Rel(w.Root, path)
	return filepath.Join(filepath.Dir(w.Root), "store", strings.ReplaceAll(r, string(filepath.Separator), "__"))
}

// clearOut empties an output path (and what a link there pointed to).
func (w *World) clearOut(path string) {
	_ = os.RemoveAll(path)
	_ = os.RemoveAll(w.storePath(path))
}

// Remove deletes the world.
func (w *World) Remove() { _ = os.RemoveAll(filepath.Dir(w.Root)) }

func (w *World) setupPath() string { return filepath.Join(w.Root, pkgDir, w.b.Stem+".go") }
func (w *World) outDPath() string  { return filepath.Join(w.Root, pkgDir, w.b.Stem+".gen.go") }
func (w *World) logDPath() string  { return filepath.Join(w.Root, pkgDir, w.b.Stem+".gen.log") }
func (w *World) outCDir() string {
	if w.b.OutCSameDir {
		return filepath.Join(w.Root, pkgDir)
	}
	return filepath.Join(w.Root, pkgDir, "gen_out")
}
func (w *World) outCPath() string { return filepath.Join(w.outCDir(), "custom.go") }
func (w *World) logCPath() string { return filepath.Join(w.outCDir(), "custom.log") }

// truncOffset resolves a truncation point for version v. Points are either a
// byte offset ("17") or a class name resolved against the reference bytes.
func (b *Binding) truncOffset(v, k string) int {
	ref := b.Ref[v]
	if n, err := strconv.Atoi(k); err == nil {
		if n > len(ref) {
			n = len(ref)
		}
		return n
	}
	pkgIdx := bytes.Index(ref, []byte("package "))
	switch k {
	case "empty":
		return 0
	case "header":
		return 20
	case "pkgkw":
		return pkgIdx + 4
	case "pkgname1":
		return pkgIdx + len("package ") + 1
	case "pkgnameM":
		return pkgIdx + len("package ") + len(b.Versions[v].Pkg) - 1
	case "afterpkg":
		return pkgIdx + len("package ") + len(b.Versions[v].Pkg) + 1
	case "mid":
		return len(ref) / 2
	case "midfunc":
		i := bytes.Index(ref, []byte("\nfunc "))
		if i < 0 {
			return len(ref) / 2
		}
		return i + 9
	case "last":
		return len(ref) - 1
	}
	core.Machinery("unknown truncation point %q", k)
	return 0
}

// contentFor returns the concrete bytes of an abstract content string, or
// (nil,false) for absent/dir/noparent.
func (w *World) contentFor(abs string, pkg string) ([]byte, bool) {
	switch {
	case abs == "absent" || abs == "dir" || abs == "noparent" || abs == "selflink":
		return nil, false
	case strings.HasPrefix(abs, "gen:"):
		ref, ok := w.b.Ref[abs[4:]]
		if !ok {
			core.Machinery("no reference for %s", abs)
		}
		return ref, true
	case strings.HasPrefix(abs, "trunc:"):
		rest := abs[len("trunc:"):]
		i := strings.IndexByte(rest, ':')
		v, k := rest[:i], rest[i+1:]
		return w.b.Ref[v][:w.b.truncOffset(v, k)], true
	case strings.HasPrefix(abs, "ext:"):
		ref, ok := w.b.Ref[abs[4:]]
		if !ok {
			core.Machinery("no reference for %s", abs)
		}
		return append(append([]byte(nil), ref...), []byte("\n// left over from an older, longer output\nfunc LeftOver() int { return 1 }\n")...), true
	case abs == "broken" || abs == "illtyped":
		return []byte(garbageContent(abs, pkg)), true
	}
	core.Machinery("unknown abstract content %q", abs)
	return nil, false
}

func (w *World) input(v string) Input {
	in, ok := w.b.Versions[v]
	if !ok {
		core.Machinery("unbound version %q", v)
	}
	return in
}

// writeSetup (re)writes the setup file and the rest of the module for version v.
func (w *World) writeSetup(v string) {
	in := w.input(v)
	// the rest of the module depends on the package name only; rewrite when it changes
	if w.cur == "" || w.input(w.cur).Pkg != in.Pkg {
		if w.cur != "" {
			for p := range w.input(w.cur).Rest {
				_ = os.Remove(filepath.Join(w.Root, p))
			}
		}
		files := map[string]string{"go.mod": "module " + modPath + "\n\ngo 1.19\n"}
		if w.b.BareMod {
			files["go.mod"] = "module " + modPath + "\n"
		}
		for p, c := range in.Rest {
			files[p] = c
		}
		if err := core.WriteFiles(w.Root, files); err != nil {
			core.Machinery("materialise: %v", err)
		}
	}
	if in.Setup == "" {
		_ = os.Remove(w.setupPath())
	} else {
		_ = os.MkdirAll(filepath.Dir(w.setupPath()), 0o755)
		if err := os.WriteFile(w.setupPath(), []byte(in.Setup), 0o644); err != nil {
			core.Machinery("materialise: %v", err)
		}
	}
	w.cur = v
}

func (w *World) putOut(path string, abs string, pkg string) {
	w.clearOut(path)
	switch abs {
	case "absent":
		return
	case "dir":
		_ = os.MkdirAll(path, 0o755)
		_ = os.WriteFile(filepath.Join(path, "keep.txt"), []byte("inside the directory\n"), 0o644)
		return
	case "noparent":
		if w.b.OutCSameDir {
			core.Machinery("the state noparent cannot be materialised with the -out path in the package directory")
		}
		_ = os.RemoveAll(filepath.Dir(path))
		return
	case "selflink":
		_ = os.MkdirAll(filepath.Dir(path), 0o755)
		if err := os.Symlink(w.setupPath(), path); err != nil {
			core.Machinery("materialise link: %v", err)
		}
		return
	}
	c, _ := w.contentFor(abs, pkg)
	_ = os.MkdirAll(filepath.Dir(path), 0o755)
	if w.b.Placement == "link" {
		st := w.storePath(path)
		_ = os.MkdirAll(filepath.Dir(st), 0o755)
		if err := os.WriteFile(st, c, 0o644); err != nil {
			core.Machinery("materialise out: %v", err)
		}
		if err := os.Symlink(st, path); err != nil {
			core.Machinery("materialise out link: %v", err)
		}
		return
	}
	if err := os.WriteFile(path, c, 0o644); err != nil {
		core.Machinery("materialise out: %v", err)
	}
}

const oldLog = "log of an earlier run\n"

// materialise builds abstract state s on disk from scratch.
func (w *World) materialise(s State) {
	w.writeSetup(s.Setup)
	pkg := w.outPkg(s)
	_ = os.MkdirAll(w.outCDir(), 0o755)
	_ = os.WriteFile(filepath.Join(w.outCDir(), "README"), []byte("custom output directory\n"), 0o644)
	w.putOut(w.outDPath(), s.OutD, pkg)
	w.putOut(w.outCPath(), s.OutC, pkg)
	for _, lp := range []struct{ path, st string }{{w.logDPath(), s.LogD}, {w.logCPath(), s.LogC}} {
		_ = os.Remove(lp.path)
		if lp.st == "log" {
			if _, err := os.Stat(filepath.Dir(lp.path)); err == nil {
				_ = os.WriteFile(lp.path, []byte(oldLog), 0o644)
			}
		}
	}
}

// outPkg is the package name garbage content is written for: that of the
// current setup file (garbage is "Go of the same package").
func (w *World) outPkg(s State) string { return w.input(s.Setup).Pkg }

// restHash lists (path, mode, content hash) of every file of the world except
// the output and log paths; two listings are compared for the frame condition.
func (w *World) restHash() string {
	skip := map[string]bool{w.outDPath(): true, w.outCPath(): true, w.logDPath(): true, w.logCPath(): true}
	var lines []string
	for _, root := range []string{w.Root, w.TmpDir, w.HomeDir} {
		_ = filepath.WalkDir(root, func(p string, d fs.DirEntry, err error) error {
			if err != nil {
				return nil
			}
			if skip[p] {
				if d.IsDir() {
					return filepath.SkipDir
				}
				return nil
			}
			// artefacts of the go command itself (telemetry counters, build cache), not of the tool
			if p == filepath.Join(w.HomeDir, ".config") || p == filepath.Join(w.HomeDir, ".cache") {
				return filepath.SkipDir
			}
			info, _ := d.Info()
			if d.IsDir() {
				lines = append(lines, "D "+p)
				return nil
			}
			b, _ := os.ReadFile(p)
			h := sha1.Sum(b)
			mode := ""
			if info != nil {
				mode = info.Mode().String()
			}
			lines = append(lines, fmt.Sprintf("F %s %s %s", p, mode, hex.EncodeToString(h[:])[:12]))
			return nil
		})
	}
	sort.Strings(lines)
	return strings.Join(lines, "\n")
}

// restDiff names the entries that differ between two listings.
func restDiff(before, after string) string {
	b := map[string]bool{}
	for _, l := range strings.Split(before, "\n") {
		b[l] = true
	}
	var out []string
	a := map[string]bool{}
	for _, l := range strings.Split(after, "\n") {
		a[l] = true
		if !b[l] {
			out = append(out, "+"+l)
		}
	}
	for l := range b {
		if !a[l] {
			out = append(out, "-"+l)
		}
	}
	sort.Strings(out)
	if len(out) > 6 {
		out = out[:6]
	}
	return strings.Join(out, " ")
}

// checkOut compares the file at path with abstract content abs. Returns "" if
// it conforms, else a description.
func (w *World) checkOut(path, abs, pkg, what string) string {
	info, err := os.Lstat(path)
	switch abs {
	case "absent":
		if err == nil {
			return fmt.Sprintf("%s: expected absent, found %s", what, describe(path, info))
		}
		return ""
	case "noparent":
		if _, e := os.Stat(filepath.Dir(path)); e == nil {
			return fmt.Sprintf("%s: parent directory was created", what)
		}
		return ""
	case "selflink":
		if err != nil || info.Mode()&os.ModeSymlink == 0 {
			return fmt.Sprintf("%s: expected the symbolic link to the setup file to stay, found %s", what, describe(path, info))
		}
		if want := w.input(w.cur).Setup; want == "" {
			if _, e := os.Stat(w.setupPath()); e == nil {
				return fmt.Sprintf("%s: a file appeared behind the dangling link", what)
			}
		} else if b, e := os.ReadFile(w.setupPath()); e != nil || string(b) != want {
			return fmt.Sprintf("%s: the setup file behind the link was overwritten", what)
		}
		return ""
	case "dir":
		if err != nil || !info.IsDir() {
			return fmt.Sprintf("%s: expected the directory to stay, found %s", what, describe(path, info))
		}
		b, e := os.ReadFile(filepath.Join(path, "keep.txt"))
		ents, _ := os.ReadDir(path)
		if e != nil || string(b) != "inside the directory\n" || len(ents) != 1 {
			return fmt.Sprintf("%s: directory content changed", what)
		}
		return ""
	}
	want, _ := w.contentFor(abs, pkg)
	if err != nil {
		return fmt.Sprintf("%s: expected %s (%d bytes), file is absent", what, abs, len(want))
	}
	if info.IsDir() {
		return fmt.Sprintf("%s: expected %s, found a directory", what, abs)
	}
	got, _ := os.ReadFile(path)
	if !bytes.Equal(got, want) {
		return fmt.Sprintf("%s: expected %s (%d bytes), found %d bytes differing at offset %d", what, abs, len(want), len(got), firstDiff(got, want))
	}
	return ""
}

func (w *World) checkLog(path, abs, what string) string {
	_, err := os.Lstat(path)
	if abs == "absent" && err == nil {
		return what + ": a log file was created"
	}
	if abs == "log" && err != nil {
		if _, e := os.Stat(filepath.Dir(path)); e != nil {
			return "" // directory itself is missing; nothing can be there
		}
		return what + ": log file missing"
	}
	return ""
}

func describe(path string, info os.FileInfo) string {
	if info == nil {
		return "nothing"
	}
	if info.IsDir() {
		return "a directory"
	}
	return fmt.Sprintf("a file of %d bytes", info.Size())
}

func firstDiff(a, b []byte) int {
	n := len(a)
	if len(b) < n {
		n = len(b)
	}
	for i := 0; i < n; i++ {
		if a[i] != b[i] {
			return i
		}
	}
	return n
}
