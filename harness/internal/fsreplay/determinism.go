package fsreplay

import (
	"fmt"
	"math/rand"
	"os"
	"path/filepath"
	"strings"
)

// RunRecord is the full observation of one run, with machine-specific path
// prefixes normalised, for the determinism comparison of C13.
type RunRecord struct {
	Desc    string `json:"desc"` // spelling, cwd, repetition
	Sp      string `json:"sp"`
	Cwd     string `json:"cwd"`
	Exit    int    `json:"exit"`
	Stdout  string `json:"stdout"`
	Stderr  string `json:"stderr"`
	OutD    string `json:"outD"` // bytes at the default output path ("<absent>" if none)
	OutC    string `json:"outC"`
	Crashed bool   `json:"crashed"`
}

func readOr(path string) string {
	info, err := os.Lstat(path)
	if err != nil {
		return "<absent>"
	}
	if info.IsDir() {
		return "<dir>"
	}
	b, _ := os.ReadFile(path)
	return string(b)
}

// RepeatRuns runs every variant (spelling x cwd) of one (state, flags) group
// reps times, each in a fresh world and a fresh process with a scrambled
// unrelated environment.
func (b *Binding) RepeatRuns(variants []Transition, reps int, seed int64) []*RunRecord {
	rng := rand.New(rand.NewSource(seed))
	var recs []*RunRecord
	for _, t := range variants {
		for r := 0; r < reps; r++ {
			w := b.NewWorld()
			w.materialise(t.From)
			junk := []string{
				fmt.Sprintf("VERIF_JUNK_%d=%d", rng.Intn(1000), rng.Int63()),
				fmt.Sprintf("LANG=%s", []string{"C", "en_US.UTF-8", "tr_TR.UTF-8", "POSIX"}[rng.Intn(4)]),
				fmt.Sprintf("TZ=%s", []string{"UTC", "Asia/Tokyo", "America/New_York"}[rng.Intn(3)]),
				fmt.Sprintf("COLUMNS=%d", 40+rng.Intn(200)),
				fmt.Sprintf("GOMAXPROCS=%d", 1+rng.Intn(8)),
			}
			o := w.Apply(t.From, t.Act, junk)
			base := filepath.Dir(w.Root)
			norm := func(s string) string { return strings.ReplaceAll(s, base, "<W>") }
			recs = append(recs, &RunRecord{
				Desc: fmt.Sprintf("sp=%s cwd=%s rep=%d", t.Act.Sp, t.Act.Cwd, r), Sp: t.Act.Sp, Cwd: t.Act.Cwd,
				Exit: o.Exit, Stdout: norm(o.Stdout), Stderr: norm(o.Stderr),
				OutD: readOr(w.outDPath()), OutC: readOr(w.outCPath()), Crashed: o.Crash || o.Hang,
			})
			w.Remove()
		}
	}
	return recs
}

// CompareRuns returns a description of the first difference among the runs of
// one group, with the two runs that differ, or "".
func CompareRuns(recs []*RunRecord) (string, *RunRecord, *RunRecord) {
	if len(recs) == 0 {
		return "", nil, nil
	}
	a := recs[0]
	for _, r := range recs[1:] {
		switch {
		case r.Exit != a.Exit:
			return fmt.Sprintf("exit status differs: %d vs %d", a.Exit, r.Exit), a, r
		case r.OutD != a.OutD:
			return fmt.Sprintf("bytes at the default output path differ (first difference at offset %d)", firstDiff([]byte(a.OutD), []byte(r.OutD))), a, r
		case r.OutC != a.OutC:
			return fmt.Sprintf("bytes at the -out path differ (first difference at offset %d)", firstDiff([]byte(a.OutC), []byte(r.OutC))), a, r
		case r.Stdout != a.Stdout:
			return "stdout differs", a, r
		}
	}
	// diagnostics: compared among runs with the same spelling and working directory
	// (messages may legitimately quote the path as it was spelled)
	by := map[string]*RunRecord{}
	for _, r := range recs {
		k := r.Sp + "|" + r.Cwd
		if f, ok := by[k]; ok {
			if f.Stderr != r.Stderr {
				return "diagnostics on stderr differ between two runs with identical arguments", f, r
			}
		} else {
			by[k] = r
		}
	}
	return "", nil, nil
}
