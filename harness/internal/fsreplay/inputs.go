// Package fsreplay binds spec/CLI.tla to the real binary: it materialises
// abstract file-system states, performs actions with the tool built from
// /repo and projects the resulting tree back to the model's vocabulary.
package fsreplay

import (
	"fmt"
	"strings"
)

// Input is one concrete setup-file version with the other files of its module.
type Input struct {
	Name    string
	Pkg     string            // package name of the setup file
	Setup   string            // content of setup.go ("" = the file does not exist)
	Rest    map[string]string // other files, relative to the module root
	Accepts bool
}

const modPath = "fsw"

// pkgDir is where the setup file lives inside the module.
const pkgDir = "app/conv"

func restCommon(pkg string) map[string]string {
	return map[string]string{
		pkgDir + "/types.go": fmt.Sprintf(`package %s

// Pet is a domain type.
type Pet struct {
	ID    int
	Name  string
	Age   int64
	Tags  []string
	Owner Owner
	note  string
}

type Owner struct {
	Name string
	City string
}

type PetDTO struct {
	ID    int
	Name  string
	Age   int
	Tags  []string
	Owner OwnerDTO
	Label string
}

type OwnerDTO struct {
	Name string
	City string
}

func (p *Pet) Note() string { return p.note }

// Raw and RawDTO: a convertible pair with a composite destination type (a warning under :typecast).
type Raw struct {
	Data string
	N    int
}

type RawDTO struct {
	Data []byte
	N    int
}
`, pkg),
		"app/model/model.go": `package model

type User struct {
	ID     int64
	Name   string
	Status Status
	Extra  string
}

type Status int

func (s Status) String() string {
	if s == 0 {
		return "off"
	}
	return "on"
}

func UpperName(s string) string { return s + "!" }

func Check(dst *UserRow, src *User) error { return nil }

type UserRow struct {
	ID     int64
	Name   string
	Status string
	Rank   int
}
`,
		"app/other/other.go": `package other

type Code int

func ToCode(i int) Code { return Code(i) }

func init() {}
`,
		// unmarked interfaces in other files of the package; the rejected version bad:multi embeds them. Every
		// other file of the package sorts AFTER the output paths (setup.gen.go, custom.go, ...): where two package
		// clauses meet in one directory the go command goes by the first file, and that must be the leftover
		pkgDir + "/v_audit.go":   "package " + pkg + "\n\n// AuditConverter is embedded by a converter interface.\ntype AuditConverter interface {\n\t// Stamp has no source.\n\tStamp() *PetDTO\n}\n",
		pkgDir + "/v_billing.go": "package " + pkg + "\n\n// BillingConverter is embedded by a converter interface.\ntype BillingConverter interface {\n\tOwnerToDTO(*Owner) *OwnerDTO\n\t// Settle has no destination.\n\tSettle(*Owner)\n}\n",
		"sibling/doc.go":         "package sibling\n",
		// a package of the module that goes by the name of a standard library package
		"app/time/time.go": `package time

type T struct{}

func Now() T { return T{} }

func (T) Unix() int64 { return 7 }
`,
		// two packages whose import paths end in the same element (both imported blank by one input)
		"app/audit/hooks/hooks.go": `package hooks

import "fsw/app/model"

func Stamp(dst *model.UserRow, src *model.User) { dst.Rank = 1 }

func Label(s string) string { return "audit:" + s }
`,
		// a package that declares the name hooks at a path that ends otherwise
		"app/audit/hk2/hooks.go": `package hooks

import "fsw/app/model"

func Stamp(dst *model.UserRow, src *model.User) { dst.Rank = 3 }

func Label(s string) string { return "hk2:" + s }
`,
		"app/storage/hooks/hooks.go": `package hooks

import "fsw/app/model"

// this package offers neither Stamp nor Label: a run that binds the name "hooks" to it fails
func Archive(dst *model.UserRow, src *model.User) { dst.Rank = 2 }
`,
	}
}

// Accepted inputs. They avoid nothing on purpose except features whose
// handling is a recorded finding of another property; each exercises several
// imports, interfaces and notations so that hidden nondeterminism (random
// markers, map iteration over the import table) has something to bite on.
func acceptedInputs() []Input {
	// every setup file of the library ends with a declaration that is carried over: one line far longer than the
	// 64 KiB a line scanner takes by default
	blob := "\n// Blob is carried over.\nconst Blob = \"" + strings.Repeat("0123456789abcdef", 4400) + "\"\n"
	mk := func(name, pkg, setup string) Input {
		return Input{Name: name, Pkg: pkg, Setup: setup + blob, Rest: restCommon(pkg), Accepts: true}
	}
	var ins []Input
	ins = append(ins, mk("simple", "conv", `//go:build convergen

package conv

//go:generate go run github.com/reedom/convergen@latest
type Convergen interface {
	// PetToDTO copies a pet, 100%s of it.
	// :typecast
	// :literal Label "50%v off"
	PetToDTO(*Pet) *PetDTO
	// :map Name Label
	// :typecast
	OwnerLabel(src *Pet) (dst *PetDTO)
}
`))
	ins = append(ins, mk("imports", "conv", `//go:build convergen

package conv

import (
	_ "fsw/app/other"
	mdl "fsw/app/model"
)

// Limit is kept (100%d of it).
const Limit = 10 % 11

// :convergen
// :stringer
type UserConv interface {
	// ToRow converts a user.
	// :conv mdl.UpperName Name
	// :literal Rank 7
	// :postprocess mdl.Check
	ToRow(*mdl.User) (*mdl.UserRow, error)
}

// Keep is an unrelated function.
func Keep() int { return Limit }

type Convergen interface {
	// :typecast
	// :skip Label
	// :skip /^Tag/
	Plain(*Pet) *PetDTO
	// :style arg
	// :typecast
	// :map Note() Label
	Fill(*Pet) *PetDTO
}
`))
	ins = append(ins, mk("styles", "conv", `//go:build convergen

package conv

import (
	"fsw/app/model"
)

type local struct{ N int }

// Convergen is the converter.
type Convergen interface {
	// :recv p
	// :typecast
	// :getter
	// :skip Label
	Export(*Pet) *PetDTO
	// :style arg
	// :reverse
	// :typecast
	// :skip note
	Back(*Pet) *PetDTO
	// :match none
	// :map ID ID
	Only(model.User) (model.UserRow, error)
	// :case:off
	// :typecast
	// :map $2 Label
	WithArg(p *Pet, label string) (*PetDTO, error)
}

var keep = local{N: 1}
`))
	ins = append(ins, mk("warnings", "conv", `//go:build convergen

package conv

import "fsw/app/model"

// :convergen
type A interface {
	// unmatched fields produce warnings on stderr
	Row(*model.User) *model.UserRow
}

// :convergen
type B interface {
	// notations that address no member of the destination (a renamed field, a slip of the pen): whatever the
	// tool has to say about them, it says it the same way every time
	// :map Name Nowhere1
	// :literal Nowhere2 "x"
	// :map Name Nowhere3
	// :literal Nowhere4 1
	One(*Pet) *PetDTO
	Two(*Owner) *OwnerDTO
	// :typecast
	Three(*Pet) *PetDTO
	// :typecast
	Four(*Raw) *RawDTO
}

// :convergen
type C interface {
	// :stringer
	// :map Extra Name
	Row2(*model.User) *model.UserRow
}

// Later is a converter interface that has no methods yet.
// :convergen
type Later interface{}
`))
	ins = append(ins, mk("blankdup", "conv", `//go:build convergen

package conv

import (
	_ "fsw/app/audit/hooks"
	"fsw/app/model"
	_ "fsw/app/other"
	_ "fsw/app/storage/hooks"
)

// :convergen
type Rows interface {
	// :stringer
	// :conv hooks.Label Name
	// :postprocess hooks.Stamp
	ToRow(*model.User) *model.UserRow
	// :stringer
	// :skip Rank
	// :preprocess hooks.Stamp
	ToRow2(*model.User) *model.UserRow
}

type Convergen interface {
	// :typecast
	// :skip Label
	Pets(*Pet) *PetDTO
}
`))
	// an ordinary import whose package DECLARES the name hooks, next to a blank import of another package that
	// declares it too: in Go source `hooks.Stamp` means the ordinary import, and it means the same every time
	ins = append(ins, mk("samename", "conv", `//go:build convergen

package conv

import (
	"fsw/app/audit/hk2"
	"fsw/app/model"
	_ "fsw/app/storage/hooks"
)

// KeepHooks uses the ordinary import.
var KeepHooks = hooks.Label("x")

type Convergen interface {
	// :stringer
	// :conv hooks.Label Name
	// :postprocess hooks.Stamp
	ToRow(*model.User) *model.UserRow
	// :typecast
	// :skip Label
	Pets(*Pet) *PetDTO
}
`))
	// a pair for the import resolution of the final pass: the first version imports the module's own
	// package time, the second leaves `time` to goimports (which settles on the standard library) -
	// nothing of the first version's output may decide that
	ins = append(ins, mk("impold", "conv", `//go:build convergen

package conv

import "fsw/app/time"

type Convergen interface {
	// :typecast
	// :skip Label
	// :literal Age int(time.Now().Unix())
	PetToDTO(*Pet) *PetDTO
}
`))
	ins = append(ins, mk("impnew", "conv", `//go:build convergen

package conv

type Convergen interface {
	// :typecast
	// :skip Label
	// :literal Age int(time.Now().Unix())
	PetToDTO(*Pet) *PetDTO
}
`))
	// a package that consists of the setup file alone (its types are declared in it): whatever lies at the output
	// path is then the ONLY other file of the package the go command gets to see
	soloRest := map[string]string{"sibling/doc.go": "package sibling\n"}
	soloSetup := func(extra string) string {
		return `//go:build convergen

package solo

type In struct {
	ID   int
	Name string
}

type Out struct {
	ID   int
	Name string
	Note string
}

type Convergen interface {
	// :skip Note
	InToOut(*In) *Out
` + extra + `}
`
	}
	ins = append(ins, Input{Name: "solo", Pkg: "solo", Setup: soloSetup(""), Rest: soloRest, Accepts: true})
	ins = append(ins, Input{Name: "solo2", Pkg: "solo", Setup: soloSetup("\t// :literal Note \"n\"\n\tInToOut2(*In) *Out\n"), Rest: soloRest, Accepts: true})
	// the same as "simple" under a long package name (truncation points inside the package identifier)
	long := mk("longname", "longpkgname", strings.Replace(strings.TrimSuffix(ins[0].Setup, blob), "package conv", "package longpkgname", 1))
	ins = append(ins, long)
	return ins
}

// AcceptedInputs returns the library of accepted inputs.
func AcceptedInputs() []Input { return acceptedInputs() }

// RejectedInput returns the rejected input of a kind ("bad:load", ...).
func RejectedInput(kind string) Input { return rejectedInput(kind) }

// rejectedInput returns the concrete rejected version for a failing stage.
func rejectedInput(kind string) Input {
	base := Input{Name: kind, Pkg: "conv", Rest: restCommon("conv")}
	head := "//go:build convergen\n\npackage conv\n\n"
	switch kind {
	case "bad:load":
		base.Setup = head + "type Convergen interface {\n\tM(*Pet) *PetDTO\n\nfunc broken( {\n"
	case "bad:find":
		base.Setup = head + "type Other interface {\n\tM(*Pet) *PetDTO\n}\n\n// nothing to convert here\nvar X = 1\n"
	case "bad:parse":
		base.Setup = head + "type Convergen interface {\n\t// :style bogus\n\tM(*Pet) *PetDTO\n}\n"
	case "bad:resolve":
		base.Setup = head + "type Convergen interface {\n\t// :conv NoSuchFunc Name\n\tM(*Pet) *PetDTO\n}\n"
	case "bad:build":
		base.Setup = head + "type Convergen interface {\n\t// :style arg\n\t// :reverse\n\tM(p *Pet, extra int) *PetDTO\n}\n"
	case "bad:format":
		// fails only in the final import/format pass: the receiver name is a Go keyword
		base.Setup = head + "type Convergen interface {\n\t// :recv type\n\tM(*Pet) *PetDTO\n}\n"
	case "bad:multi":
		// several methods are refused, one of them declared in another file of the package (embedded
		// interface): every one is reported, in an order that must not depend on the process
		base.Setup = head + "type Convergen interface {\n\tAuditConverter\n\tBillingConverter\n\tM(*Pet) *PetDTO\n\t// Touch has no destination.\n\tTouch(*Pet)\n}\n"
	case "bad:missing":
		base.Setup = ""
	default:
		panic("unknown rejected kind " + kind)
	}
	return base
}

// garbageContent is what Corrupt leaves at the output path.
func garbageContent(kind, pkg string) string {
	switch kind {
	case "broken":
		return "package " + pkg + "\n\nfunc {{{ this is not Go\n"
	case "illtyped":
		return "package " + pkg + "\n\n// stale code that no longer type-checks\nfunc PetToDTO(x int) string { return x + undefinedName }\n\nfunc Plain() {}\n\nvar _ missingType\n"
	}
	panic("unknown garbage " + kind)
}

func isRejected(v string) bool { return strings.HasPrefix(v, "bad:") }
