package fsreplay

import (
	"fmt"
	"os"
	"path/filepath"
	"strings"

	"verif/internal/core"
)

// Obs is what one run of the tool showed.
type Obs struct {
	Exit   int
	Stdout string
	Stderr string
	Args   []string
	Cwd    string
	Env    []string
	Crash  bool
	Hang   bool
}

// runArgs builds argv, cwd and environment for a run action.
func (w *World) runArgs(a Action) (args []string, cwd string, env []string) {
	pkgAbs := filepath.Join(w.Root, pkgDir)
	switch a.Cwd {
	case "pkg", "":
		cwd = pkgAbs
	case "root":
		cwd = w.Root
	case "sibling":
		cwd = filepath.Join(w.Root, "sibling")
	case "pkglink":
		// the package directory, entered through a symbolic link to the module directory (PWD says so)
		cwd = w.viaLink(pkgAbs)
	case "outside":
		cwd = w.TmpDir
	default:
		core.Machinery("unknown cwd %q", a.Cwd)
	}
	rel := func(p string) string {
		r, err := filepath.Rel(cwd, p)
		if err != nil {
			return p
		}
		return r
	}
	spell := func(p string) string {
		if a.Sp == "abs" || a.Sp == "rel" || a.Sp == "linkout" || a.Sp == "" {
			return p
		}
		if a.Sp == "link" {
			// absolute, through a symbolic link to the module directory
			return w.viaLink(p)
		}
		return rel(p)
	}
	if a.F.Dry {
		args = append(args, "-dry")
	}
	if a.F.Print {
		args = append(args, "-print")
	}
	if a.F.Log {
		args = append(args, "-log")
	}
	if a.F.Out {
		if a.Sp == "linkout" {
			// only the -out path goes through the linked directory
			args = append(args, "-out", w.viaLink(w.outCPath()))
		} else {
			args = append(args, "-out", spell(w.outCPath()))
		}
	}
	env = append([]string{"TMPDIR=" + w.TmpDir, "HOME=" + w.HomeDir}, core.GoDirs()...)
	if a.Cwd == "pkglink" {
		env = append(env, "PWD="+cwd)
	}
	defer func() { env = append(env, w.b.Env...) }()
	switch a.Sp {
	case "rel", "abs", "link", "linkout", "":
		args = append(args, spell(w.setupPath()))
		// as under `go generate` started from a file of ANOTHER package: the variables describe that file
		env = append(env, "GOPACKAGE=elsewhere", "GOLINE=3")
	case "gofile":
		env = append(env, "GOFILE="+rel(w.setupPath()), "GOPACKAGE=conv", "GOLINE=5")
	case "both":
		args = append(args, rel(w.setupPath()))
		env = append(env, "GOFILE=does_not_exist.go")
	default:
		core.Machinery("unknown spelling %q", a.Sp)
	}
	return
}

// Apply performs one action in the world (already holding the from-state).
// For run actions the observation is returned.
func (w *World) Apply(from State, a Action, extraEnv []string) *Obs {
	pkg := w.outPkg(from)
	switch a.A {
	case "init":
	case "edit":
		w.writeSetup(a.V)
	case "crash":
		// outD = gen:v -> trunc:v:k
		v := strings.TrimPrefix(from.OutD, "gen:")
		w.putOut(w.outDPath(), "trunc:"+v+":"+a.K, pkg)
	case "crashC":
		v := strings.TrimPrefix(from.OutC, "gen:")
		w.putOut(w.outCPath(), "trunc:"+v+":"+a.K, pkg)
	case "corrupt":
		w.putOut(w.outDPath(), a.G, pkg)
	case "extend":
		w.putOut(w.outDPath(), "ext:"+strings.TrimPrefix(from.OutD, "gen:"), pkg)
	case "blockD":
		w.putOut(w.outDPath(), "dir", pkg)
	case "blockC":
		w.putOut(w.outCPath(), a.B, pkg)
	case "remove":
		w.clearOut(w.outDPath())
		w.clearOut(w.outCPath())
	case "run":
		args, cwd, env := w.runArgs(a)
		stdoutTo := ""
		for _, e := range extraEnv {
			// not a variable of the tool's environment: where its standard output goes
			if strings.HasPrefix(e, "VERIF_STDOUT_TO=") {
				stdoutTo = strings.TrimPrefix(e, "VERIF_STDOUT_TO=")
				continue
			}
			env = append(env, e)
		}
		res := w.b.Tool.Run(core.RunOpts{Dir: cwd, Args: args, Env: env, StdoutTo: stdoutTo})
		return &Obs{Exit: res.Exit, Stdout: res.Stdout, Stderr: res.Stderr, Args: args, Cwd: cwd, Env: env, Crash: res.Crashed(), Hang: res.TimedOut}
	default:
		core.Machinery("unknown action %q", a.A)
	}
	return nil
}

// Conforms compares the world (and the observation of a run) with the
// abstract state the specification requires. It returns the list of
// differences (empty = conforms).
func (w *World) Conforms(to State, a Action, o *Obs, restBefore string) []Diff {
	var diffs []Diff
	aspect := ""
	add := func(s string) {
		if s != "" {
			diffs = append(diffs, Diff{Aspect: aspect, Msg: s})
		}
	}
	pkg := w.input(to.Setup).Pkg
	aspect = "outD"
	add(w.checkOut(w.outDPath(), to.OutD, pkg, "default output path"))
	aspect = "outC"
	add(w.checkOut(w.outCPath(), to.OutC, pkg, "-out path"))
	aspect = "logD"
	add(w.checkLog(w.logDPath(), to.LogD, "default log path"))
	if to.OutC != "noparent" {
		aspect = "logC"
		add(w.checkLog(w.logCPath(), to.LogC, "-out log path"))
	}
	if a.A == "run" {
		aspect = "rest"
		if restBefore != "" {
			if after := w.restHash(); after != restBefore {
				add("files other than the output and log were created or modified: " + restDiff(restBefore, after))
			}
		}
		aspect = "hang"
		if o.Hang {
			add("the run did not terminate")
			return diffs
		}
		aspect = "crash"
		if o.Crash {
			add("the tool crashed: " + firstLines(o.Stderr, 2))
		}
		aspect = "exit"
		wantExit := 0
		if to.Last.Exit == "1" {
			wantExit = 1
		}
		if (o.Exit == 0) != (wantExit == 0) {
			add(fmt.Sprintf("exit status %d, specification requires %d (stderr: %s)", o.Exit, wantExit, firstLines(o.Stderr, 2)))
		}
		aspect = "stdout"
		if to.Last.Exit == "0" {
			if strings.HasPrefix(to.Last.Stdout, "gen:") {
				ref := string(w.b.Ref[to.Last.Stdout[4:]])
				// "identically": the bytes of the file, optionally followed by the newline of the print call
				if o.Stdout != ref && o.Stdout != ref+"\n" {
					add(fmt.Sprintf("-print: stdout (%d bytes) is not the generated code (%d bytes)", len(o.Stdout), len(ref)))
				}
			} else if strings.Contains(o.Stdout, string(w.b.Ref[to.Setup])) {
				// without -print the code does not go to stdout
				add("the generated code was printed to stdout without -print")
			}
		}
		aspect = "stderr"
		if o.Exit != 0 && strings.TrimSpace(o.Stderr) == "" {
			add("non-zero exit without a message on stderr")
		}
	}
	return diffs
}

func firstLines(s string, n int) string {
	lines := strings.Split(strings.TrimSpace(s), "\n")
	if len(lines) > n {
		lines = lines[:n]
	}
	return strings.Join(lines, " | ")
}

// Diff is one difference between the real tree/observation and the state the
// specification requires, tagged with the aspect it concerns so that each
// property judges only what it states.
type Diff struct {
	Aspect string // outD outC logD logC rest hang crash exit stdout stderr
	Msg    string
}

// Transition is one TRANS line of TLC.
type Transition struct {
	From State  `json:"from"`
	Act  Action `json:"act"`
	To   State  `json:"to"`
}

// Key identifies a transition.
func (t *Transition) Key() string {
	return fmt.Sprintf("%+v|%s|%+v", t.From, t.Act.String(), t.To)
}

// ReplayTransition materialises t.From in a fresh world, performs t.Act with
// the real binary and compares the result with t.To.
func (b *Binding) ReplayTransition(t *Transition) (diffs []Diff, obs *Obs, files map[string]string) {
	w := b.NewWorld()
	defer w.Remove()
	w.materialise(t.From)
	before := ""
	if t.Act.A == "run" {
		before = w.restHash()
		files = w.snapshotFiles()
	}
	obs = w.Apply(t.From, t.Act, nil)
	diffs = w.Conforms(t.To, t.Act, obs, before)
	return
}

// ReplayStdoutFull performs a -print run whose standard output cannot be written (/dev/full). The tool may
// ignore that and succeed, or fail - but a failed run is a failed run: the output path and everything else stay
// as they were (CLI.tla FailLeavesOut, FrameRest). Returned: the deviations from whichever of the two applies.
func (b *Binding) ReplayStdoutFull(t *Transition) (diffs []Diff, obs *Obs, files map[string]string) {
	w := b.NewWorld()
	defer w.Remove()
	w.materialise(t.From)
	before := w.restHash()
	files = w.snapshotFiles()
	obs = w.Apply(t.From, t.Act, []string{"VERIF_STDOUT_TO=/dev/full"})
	to := t.To
	if obs.Exit != 0 {
		to = t.From
		to.LogD, to.LogC = t.To.LogD, t.To.LogC // the log is opened before anything else
	}
	for _, d := range w.Conforms(to, t.Act, obs, before) {
		if d.Aspect == "outD" || d.Aspect == "outC" || d.Aspect == "rest" || d.Aspect == "crash" || d.Aspect == "hang" {
			if obs.Exit != 0 {
				d.Msg = fmt.Sprintf("the run failed (exit %d: %s) and yet: %s", obs.Exit, firstLines(obs.Stderr, 1), d.Msg)
			}
			diffs = append(diffs, d)
		}
	}
	return
}

// snapshotFiles packs the world's module files for a replay file.
func (w *World) snapshotFiles() map[string]string {
	out := map[string]string{}
	_ = filepath.Walk(w.Root, func(p string, info os.FileInfo, err error) error {
		if err != nil || info.IsDir() {
			return nil
		}
		b, _ := os.ReadFile(p)
		r, _ := filepath.Rel(w.Root, p)
		out[r] = string(b)
		return nil
	})
	return out
}

// WalkStep is one entry of a WALK line.
type WalkStep struct {
	Act Action `json:"act"`
	To  State  `json:"to"`
}

// ReplayWalk replays a whole behaviour step by step in ONE world (path
// dependence). It returns the index of the first non-conforming step.
func (b *Binding) ReplayWalk(steps []WalkStep) (bad int, diffs []Diff, obs *Obs) {
	w := b.NewWorld()
	defer w.Remove()
	if len(steps) == 0 || steps[0].Act.A != "init" {
		core.Machinery("walk does not start with init")
	}
	w.materialise(steps[0].To)
	cur := steps[0].To
	for i := 1; i < len(steps); i++ {
		st := steps[i]
		before := ""
		if st.Act.A == "run" {
			before = w.restHash()
		}
		o := w.Apply(cur, st.Act, nil)
		d := w.Conforms(st.To, st.Act, o, before)
		if len(d) > 0 {
			return i, d, o
		}
		cur = st.To
	}
	return -1, nil, nil
}

// TwinResult is the outcome of the differential form of C12: the same run from
// the same state, once with the output path as the state says and once with
// the output path emptied (the property's own reference: "exactly as if the
// path were empty").
type TwinResult struct {
	Diffs  []string
	Actual *Obs
	Twin   *Obs
	Files  map[string]string
}

// ReplayTwin replays a run transition and its emptied twin and compares exit
// status and the bytes written to the target path.
func (b *Binding) ReplayTwin(t *Transition) *TwinResult {
	res := &TwinResult{}
	target := func(w *World) string {
		if t.Act.F.Out {
			return w.outCPath()
		}
		return w.outDPath()
	}
	// actual
	w1 := b.NewWorld()
	defer w1.Remove()
	w1.materialise(t.From)
	res.Files = w1.snapshotFiles()
	before := readOr(target(w1))
	res.Actual = w1.Apply(t.From, t.Act, nil)
	after := readOr(target(w1))
	// twin: target emptied
	twinFrom := t.From
	if t.Act.F.Out {
		twinFrom.OutC = "absent"
	} else {
		twinFrom.OutD = "absent"
	}
	w2 := b.NewWorld()
	defer w2.Remove()
	w2.materialise(twinFrom)
	res.Twin = w2.Apply(twinFrom, t.Act, nil)
	twinAfter := readOr(target(w2))

	if res.Actual.Hang {
		res.Diffs = append(res.Diffs, "the run did not terminate")
		return res
	}
	if res.Actual.Crash && !res.Twin.Crash {
		res.Diffs = append(res.Diffs, "the tool crashed: "+firstLines(res.Actual.Stderr, 2))
	}
	if (res.Actual.Exit == 0) != (res.Twin.Exit == 0) {
		res.Diffs = append(res.Diffs, fmt.Sprintf("exit status %d, but %d when the output path is empty (stderr: %s)", res.Actual.Exit, res.Twin.Exit, firstLines(res.Actual.Stderr, 2)))
	}
	if twinAfter == "<absent>" {
		// nothing is written on an empty path: then nothing may be written here either
		if after != before {
			res.Diffs = append(res.Diffs, "the run writes nothing when the output path is empty, but here it changed the file at the output path")
		}
	} else if after != twinAfter {
		res.Diffs = append(res.Diffs, fmt.Sprintf("bytes at the output path after the run (%d) differ from what the same run writes to an empty path (%d bytes), first difference at offset %d",
			len(after), len(twinAfter), firstDiff([]byte(after), []byte(twinAfter))))
	}
	return res
}
