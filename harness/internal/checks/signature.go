package checks

import (
	"encoding/json"
	"fmt"
	"sort"
	"strings"

	"verif/internal/b1"
	"verif/internal/core"
	"verif/internal/project"
	"verif/internal/universe"
)

// ---- C08: spec/Signature.tla ----

type sigCfg struct {
	Style     string `json:"style"`
	Recv      bool   `json:"recv"`
	Reverse   bool   `json:"reverse"`
	SrcPtr    bool   `json:"srcPtr"`
	DstPtr    bool   `json:"dstPtr"`
	RetErr    bool   `json:"retErr"`
	Nargs     int    `json:"nargs"`
	Named     bool   `json:"named"`
	NamedRes  bool   `json:"namedRes"`
	RecvBlank bool   `json:"recvBlank"`
	Twin      bool   `json:"twin"`
	Clash     string `json:"clash"`
	DstErr    bool   `json:"dstErr"`
	Imp       string `json:"imp"`
	Pkg       string `json:"pkg"`
}
type sigImport struct {
	Path     string `json:"path"`
	Alias    string `json:"alias"`
	Declared string `json:"declared"`
}

func (i sigImport) qual() string {
	if i.Alias != "" {
		return i.Alias
	}
	return i.Declared
}

type sigParam struct {
	Name string `json:"name"`
	Type string `json:"type"`
}
type sigShape struct {
	Reject  bool       `json:"reject"`
	Recv    sigParam   `json:"recv"`
	Params  []sigParam `json:"params"`
	Results []sigParam `json:"results"`
}
type sigCase struct {
	Cfg    sigCfg    `json:"cfg"`
	Shape  sigShape  `json:"shape"`
	Import sigImport `json:"import"`
}

// sigImports are the imported packages of the signature family: the type
// alphabet's ext package under every import form of Signature.tla Imports.
func sigImports(cases []*sigCase) []b1.ExtPkg {
	seen := map[string]bool{"ext": true}
	var out []b1.ExtPkg
	for _, s := range cases {
		if seen[s.Import.Path] {
			continue
		}
		seen[s.Import.Path] = true
		out = append(out, b1.ExtPkg{Path: s.Import.Path, Alias: s.Import.Alias,
			Src: strings.Replace(universe.ExtSrc, "package ext", "package "+s.Import.Declared, 1)})
	}
	return out
}

var sigArgTypes = []string{"[]ext.XInt", "ext.XInt", "*MyInt", "**ext.XS"}
var sigArgNames = []string{"count", "code", "ref", "link"}

func star(b bool, t string) string {
	if b {
		return "*" + t
	}
	return t
}

func sigEnumerate(c *core.Ctx) []*sigCase {
	var cases []*sigCase
	res := core.MustTLC(c.Scratch, core.TLCRun{Module: "Signature", Config: "MCSignature.cfg", Tags: []string{"CASE"}, Workers: 4,
		OnLine: func(tag, js string) {
			var s sigCase
			if err := json.Unmarshal([]byte(js), &s); err != nil {
				core.Machinery("bad CASE: %v: %s", err, js)
			}
			cases = append(cases, &s)
		}})
	c.AddTLC(res)
	sort.Slice(cases, func(i, j int) bool { return fmt.Sprint(cases[i].Cfg) < fmt.Sprint(cases[j].Cfg) })
	return cases
}

func sigConcretise(k int, s *sigCase) *b1.Case {
	js, _ := json.Marshal(s)
	c := s.Cfg
	srcBase, dstBase := fmt.Sprintf("SigS%d", k), fmt.Sprintf("SigD%d", k)
	var d strings.Builder
	if c.Imp == "src" || c.Imp == "both" {
		srcBase = s.Import.qual() + ".XS"
	} else {
		fmt.Fprintf(&d, "type %s struct {\n\tX int\n}\n\n", srcBase)
	}
	if c.Imp == "dst" || c.Imp == "both" {
		dstBase = s.Import.qual() + ".XS"
	} else {
		fmt.Fprintf(&d, "type %s struct {\n\tX int\n}\n", dstBase)
		if c.DstErr {
			// a destination that can be used as an error value is a destination
			fmt.Fprintf(&d, "\nfunc (d *%s) Error() string { return \"e\" }\n", dstBase)
		}
	}
	var params []string
	// the user's own names, where they are declared; some of them are names the tool gives by default
	srcName := map[string]string{"srcIsDst": "dst", "srcIsErr": "err", "srcBlank": "_"}[c.Clash]
	if srcName == "" {
		srcName = "from"
	}
	resName := "to"
	if c.Clash == "resIsSrc" {
		resName = "src"
	}
	if c.Named {
		params = append(params, srcName+" "+star(c.SrcPtr, srcBase))
	} else {
		params = append(params, star(c.SrcPtr, srcBase))
	}
	for i := 0; i < c.Nargs; i++ {
		if c.Named && c.Clash == "argIsDst" && i == 0 {
			params = append(params, "dst "+sigArgTypes[i])
		} else if c.Named {
			params = append(params, sigArgNames[i]+" "+sigArgTypes[i])
		} else {
			params = append(params, sigArgTypes[i])
		}
	}
	var results string
	switch {
	case c.NamedRes && c.RetErr:
		results = "(" + resName + " " + star(c.DstPtr, dstBase) + ", err error)"
	case c.NamedRes:
		results = "(" + resName + " " + star(c.DstPtr, dstBase) + ")"
	case c.RetErr:
		results = "(" + star(c.DstPtr, dstBase) + ", error)"
	default:
		results = star(c.DstPtr, dstBase)
	}
	var notes []string
	// half of the arg-style methods get their style from the interface: they live in a converter interface of their
	// own that carries `:style arg` and sorts before interface Convergen, whose methods must stay in return style
	group := ""
	var groupNotes []string
	if c.Style == "arg" && hashMod(string(js), 11, 2) == 0 {
		group, groupNotes = "AaArgStyle", []string{":style arg"}
	} else if c.Style == "arg" {
		notes = append(notes, ":style arg")
	}
	if c.Recv {
		if c.RecvBlank {
			notes = append(notes, ":recv _")
		} else {
			notes = append(notes, ":recv r_c")
		}
	}
	if c.Reverse {
		notes = append(notes, ":reverse")
	}
	name := fmt.Sprintf("G%d", k)
	fkey := name
	if c.Recv {
		fkey = srcBase[strings.LastIndex(srcBase, ".")+1:] + "." + name
	}
	// a quarter of the accepted methods of interface Convergen reach it through an embedded interface
	embedded := group == "" && !s.Shape.Reject && hashMod(string(js), 17, 4) == 0
	trailer := ""
	if c.Twin {
		// a converter interface of its own, sorting before or after the others, whose one method is called like this
		// case's and has the same receiver name - on another type
		tn := "ZzTwin"
		if hashMod(string(js), 23, 2) == 0 {
			tn = "AaaTwin"
		}
		fmt.Fprintf(&d, "\ntype SigT%d struct {\n\tX int\n}\n\ntype SigU%d struct {\n\tX int\n}\n", k, k)
		trailer = fmt.Sprintf("\n// :convergen\ntype %s%d interface {\n\t// :recv r_c\n\t%s(*SigT%d) *SigU%d\n}\n", tn, k, name, k, k)
	}
	return &b1.Case{ID: core.HashID(string(js)), JSON: js, Func: fkey, Style: c.Style, Decls: d.String(), Notes: notes, Group: group, GroupNotes: groupNotes, Embedded: embedded, Trailer: trailer,
		Method: fmt.Sprintf("%s(%s) %s", name, strings.Join(params, ", "), results), Alone: s.Shape.Reject, Data: s}
}

func sigDescribe(s *sigCase) string {
	c := s.Cfg
	var f []string
	f = append(f, "style="+c.Style)
	if c.Recv {
		f = append(f, "recv")
	}
	if c.Reverse {
		f = append(f, "reverse")
	}
	f = append(f, "src="+star(c.SrcPtr, "S"), "dst="+star(c.DstPtr, "D"))
	if c.RetErr {
		f = append(f, "error")
	}
	f = append(f, fmt.Sprintf("args=%d", c.Nargs))
	if c.Named {
		f = append(f, "named-params")
	}
	if c.NamedRes {
		f = append(f, "named-results")
	}
	if c.Clash != "" && c.Clash != "none" {
		f = append(f, "names:"+c.Clash)
	}
	if c.DstErr {
		f = append(f, "destination-has-Error()")
	}
	if c.RecvBlank {
		f = append(f, "receiver-name=_")
	}
	f = append(f, "imported="+c.Imp)
	if c.Imp != "none" {
		f = append(f, fmt.Sprintf("import[path=%s name=%q package=%s]", s.Import.Path, s.Import.Alias, s.Import.Declared))
	}
	return strings.Join(f, " ")
}

func renderHeader(recv *sigParam, params, results []sigParam) string {
	p := func(xs []sigParam) string {
		var s []string
		for _, x := range xs {
			s = append(s, strings.TrimSpace(x.Name+" "+x.Type))
		}
		return strings.Join(s, ", ")
	}
	h := "func "
	if recv != nil && recv.Type != "" {
		h += "(" + recv.Name + " " + recv.Type + ") "
	}
	h += "M(" + p(params) + ")"
	if len(results) > 0 {
		h += " (" + p(results) + ")"
	}
	return h
}

func toSig(ps []project.Param) []sigParam {
	var out []sigParam
	for _, p := range ps {
		out = append(out, sigParam{p.Name, p.Type})
	}
	return out
}

func sigJudge(r *b1.Result) b1.Verdict {
	s := r.Case.Data.(*sigCase)
	v := b1.Verdict{Nontrivial: fmt.Sprint(s.Cfg)}
	if r.TimedOut || r.Crashed {
		v.What = fmt.Sprintf("signature %s: the tool crashed or hung: %s", sigDescribe(s), firstLine(r.Stderr))
		return v
	}
	if s.Shape.Reject {
		if r.Exit != 0 {
			v.OK = true
			return v
		}
		c := s.Cfg
		documented := (c.Reverse && (c.Style == "return" || c.Nargs > 0)) || (c.Recv && (c.Imp == "src" || c.Imp == "both")) || c.RecvBlank
		if !documented && c.Clash != "" && c.Clash != "none" {
			// the names of the header clash: no header that keeps the declared names is valid Go. That such a run
			// must not succeed is C01's statement (its compile judge runs this family too), not C08's
			v.OK = true
			return v
		}
		v.What = fmt.Sprintf("signature %s: this combination is documented as illegal but was accepted", sigDescribe(s))
		return v
	}
	if r.Exit != 0 {
		v.What = fmt.Sprintf("signature %s: a documented combination was rejected (exit %d): %s", sigDescribe(s), r.Exit, firstLine(r.Stderr))
		v.Deviation = sigDeviation(s, r)
		return v
	}
	if r.Fn == nil {
		v.What = fmt.Sprintf("signature %s: no function %s in the output %s", sigDescribe(s), r.Case.Func, r.ParseErr)
		return v
	}
	// expected header with this case's concrete type names
	k := strings.TrimPrefix(r.Case.Func[strings.LastIndex(r.Case.Func, ".")+1:], "G")
	sub := func(ps []sigParam) []sigParam {
		out := make([]sigParam, len(ps))
		for i, p := range ps {
			t := strings.ReplaceAll(strings.ReplaceAll(p.Type, "SigS", "SigS"+k), "SigD", "SigD"+k)
			out[i] = sigParam{p.Name, t}
		}
		return out
	}
	var wantRecv *sigParam
	if s.Shape.Recv.Type != "" {
		x := sub([]sigParam{s.Shape.Recv})[0]
		wantRecv = &x
	}
	want := renderHeader(wantRecv, sub(s.Shape.Params), sub(s.Shape.Results))
	var gotRecv *sigParam
	if r.Fn.Recv != nil {
		gotRecv = &sigParam{r.Fn.Recv.Name, r.Fn.Recv.Type}
	}
	got := renderHeader(gotRecv, toSig(r.Fn.Params), toSig(r.Fn.Results))
	if got != want {
		v.What = fmt.Sprintf("signature %s: generated `%s`, documented shape is `%s`", sigDescribe(s), got, want)
		return v
	}
	// copy direction: into the destination operand, or - under :reverse - into the source operand
	wantLHS, wantRHS := "DST.X", "SRC.X"
	if s.Cfg.Reverse {
		wantLHS, wantRHS = "SRC.X", "DST.X"
	}
	n := 0
	for _, st := range r.Fn.Body {
		if st.Kind != "assign" {
			continue
		}
		n++
		if st.LHS != wantLHS || st.Term != wantRHS {
			v.What = fmt.Sprintf("signature %s: the body copies `%s = %s`, the direction must be `%s = %s`", sigDescribe(s), st.LHS, st.Term, wantLHS, wantRHS)
			return v
		}
	}
	if n != 1 {
		v.What = fmt.Sprintf("signature %s: %d field assignments in the body, exactly one (X) expected", sigDescribe(s), n)
		return v
	}
	v.OK = true
	return v
}

func sigDeviation(s *sigCase, r *b1.Result) string { return "" }

// sigOptions are the run options of the signature family for the given cases.
func sigOptions(name string, perFile int, compile bool, cases []*b1.Case) b1.Options {
	var ss []*sigCase
	var tn []string
	for _, cs := range cases {
		s := cs.Data.(*sigCase)
		ss = append(ss, s)
	}
	imps := sigImports(ss)
	for _, e := range imps {
		tn = append(tn, e.Qual()+".XS", e.Qual()+".XInt")
	}
	// in isolation a method keeps a neighbour in the OTHER interface (see sigConcretise: interface-level style)
	var ctxGrouped, ctxPlain *b1.Case
	for _, cs := range cases {
		if cs.Alone {
			continue
		}
		if cs.Group != "" && ctxGrouped == nil {
			ctxGrouped = cs
		}
		if cs.Group == "" && ctxPlain == nil {
			ctxPlain = cs
		}
	}
	iso := func(cs *b1.Case) []*b1.Case {
		if cs.Group == "" && ctxGrouped != nil && ctxGrouped != cs {
			return []*b1.Case{ctxGrouped}
		}
		if cs.Group != "" && ctxPlain != nil && ctxPlain != cs {
			return []*b1.Case{ctxPlain}
		}
		return nil
	}
	return b1.Options{Name: name, PerFile: perFile, Family: "signature", Compile: compile, Imports: imps, TypeNames: tn, IsoContext: iso}
}

func sigCases(c *core.Ctx) []*b1.Case {
	ss := sigEnumerate(c)
	var cases []*b1.Case
	for i, s := range ss {
		cases = append(cases, sigConcretise(i, s))
	}
	// mix the styles within every file: the methods of interface Convergen must keep their own (default) style
	// next to an interface that sets another one for its methods
	sort.SliceStable(cases, func(i, j int) bool { return cases[i].ID < cases[j].ID })
	return cases
}

// C08 is exhaustive in both tiers (the space is small).
func C08(c *core.Ctx) {
	if c.Replay != "" {
		if !replayB1(c, nil, sigJudge, nil, nil, false) {
			replayUnsupported(c)
		}
		return
	}
	cases := sigCases(c)
	st := b1.Run(c, sigOptions("sig", 40, false, cases), cases, sigJudge)
	c.Set("signature_cases", st.Cases)
	c.Set("exhaustive", true)
	for _, j := range []int{0, len(cases) / 2, len(cases) - 1} {
		c.Sample(map[string]any{"cfg": cases[j].Data.(*sigCase).Cfg, "predicted": cases[j].Data.(*sigCase).Shape, "method": cases[j].Method, "notations": cases[j].Notes})
	}
	c.Set("rule", "complete product style x recv x reverse x source pointer x destination pointer x error x 0..3 additional arguments x named/unnamed parameters x named/unnamed results x imported operand types (none/src/dst/both) x declared in the converter interface or in an interface it embeds x style from the method or from the interface x import form (path element = package name, version element as name, package name differing from the path, explicit name), each with the header Signature.tla predicts or `reject`; header compared by receiver/parameter/result names and type expressions; rejected combinations travel alone and must exit non-zero")
}

// ---- C10 static: spec/Hooks.tla ----

type hookCfg struct {
	Style   string `json:"style"`
	Recv    bool   `json:"recv"`
	SrcPtr  bool   `json:"srcPtr"`
	DstPtr  bool   `json:"dstPtr"`
	RetErr  bool   `json:"retErr"`
	Nargs   int    `json:"nargs"`
	Which   string `json:"which"`
	HDstPtr bool   `json:"hDstPtr"`
	HSrcPtr bool   `json:"hSrcPtr"`
	HErr    bool   `json:"hErr"`
	HExtra  string `json:"hExtra"`
	Kind    string `json:"kind"`
	ArgAny  bool   `json:"argAny"`
	Shared  bool   `json:"shared"`
	// Namesake: an earlier method uses a function of another package that is called like this method's hook
	Namesake bool `json:"namesake"`
}
type hookCall struct {
	Name string   `json:"name"`
	Args []string `json:"args"`
	Err  bool     `json:"err"`
	Pos  string   `json:"pos"`
}
type hookCase struct {
	Cfg hookCfg `json:"cfg"`
	Fit struct {
		Reject bool     `json:"reject"`
		Call   hookCall `json:"call"`
	} `json:"fit"`
	hookName string
}

func hookEnumerate(c *core.Ctx) []*hookCase {
	var cases []*hookCase
	res := core.MustTLC(c.Scratch, core.TLCRun{Module: "Hooks", Config: "MCHooks.cfg", Tags: []string{"CASE"}, Workers: 4,
		OnLine: func(tag, js string) {
			var s hookCase
			if err := json.Unmarshal([]byte(js), &s); err != nil {
				core.Machinery("bad CASE: %v: %s", err, js)
			}
			cases = append(cases, &s)
		}})
	c.AddTLC(res)
	sort.Slice(cases, func(i, j int) bool { return fmt.Sprint(cases[i].Cfg) < fmt.Sprint(cases[j].Cfg) })
	return cases
}

func pv(b bool) string {
	if b {
		return "P"
	}
	return "V"
}

func hookConcretise(k int, h *hookCase) *b1.Case {
	js, _ := json.Marshal(struct {
		Cfg hookCfg `json:"cfg"`
		Fit any     `json:"fit"`
	}{h.Cfg, h.Fit})
	c := h.Cfg
	imported := c.Kind == "imported" || c.Kind == "importedUnexported" || c.Kind == "importedBlank"
	srcBase, dstBase := fmt.Sprintf("HS%d", k), fmt.Sprintf("HD%d", k)
	var d strings.Builder
	if imported {
		srcBase, dstBase = "ext.XS", "ext.XS"
	} else {
		fmt.Fprintf(&d, "type %s struct {\n\tX int\n\tY string\n}\n\ntype %s struct {\n\tX int\n\tY string\n}\n\n", srcBase, dstBase)
	}
	hname := fmt.Sprintf("Hook%d", k)
	extra := ""
	switch c.HExtra {
	case "all":
		extra = ", a0 int, a1 string"
	case "fewer":
		extra = ", a0 int"
	case "wrong":
		extra = ", a0 string, a1 int"
	case "wider":
		extra = ", a0 interface{}, a1 string"
	}
	ret, body := "", "{}"
	if c.HErr {
		ret, body = " error", "{ return nil }"
		// every other error-returning hook names its result, as generated functions themselves do
		if hashMod(string(js), 19, 2) == 0 {
			ret = " (err error)"
		}
	}
	hd, hs := star(c.HDstPtr, dstBase), star(c.HSrcPtr, srcBase)
	switch c.Kind {
	case "ok":
		if c.Namesake {
			hname = "HookPPNN" // called like ext.HookPPNN, which the companion method below uses
		}
		fmt.Fprintf(&d, "func %s(d %s, s %s%s)%s %s\n", hname, hd, hs, extra, ret, body)
	case "funcVar":
		fmt.Fprintf(&d, "var %s = func(d %s, s %s%s)%s %s\n", hname, hd, hs, extra, ret, body)
	case "imported":
		hname = "ext.Hook" + pv(c.HDstPtr) + pv(c.HSrcPtr) + map[bool]string{true: "E", false: "N"}[c.HErr] + map[bool]string{true: "X", false: "N"}[c.HExtra == "all"]
	case "importedBlank":
		hname = "hk.Hook" + pv(c.HDstPtr) + pv(c.HSrcPtr) + map[bool]string{true: "E", false: "N"}[c.HErr] + map[bool]string{true: "X", false: "N"}[c.HExtra == "all"]
	case "importedUnexported":
		hname = "ext.hookPP"
	case "arity0":
		fmt.Fprintf(&d, "func %s()%s %s\n", hname, ret, body)
	case "arity1":
		fmt.Fprintf(&d, "func %s(d %s)%s %s\n", hname, hd, ret, body)
	case "dstMismatch":
		fmt.Fprintf(&d, "type HO%d struct{ Q bool }\n\nfunc %s(d *HO%d, s %s)%s %s\n", k, hname, k, hs, ret, body)
	case "srcMismatch":
		fmt.Fprintf(&d, "type HO%d struct{ Q bool }\n\nfunc %s(d %s, s *HO%d)%s %s\n", k, hname, hd, k, ret, body)
	case "twoResults":
		fmt.Fprintf(&d, "func %s(d %s, s %s) (int, error) { return 0, nil }\n", hname, hd, hs)
	case "nonErrResult":
		fmt.Fprintf(&d, "func %s(d %s, s %s) int { return 0 }\n", hname, hd, hs)
	case "errImplResult":
		fmt.Fprintf(&d, "type HE%d struct{}\n\nfunc (*HE%d) Error() string { return \"e\" }\n\nfunc %s(d %s, s %s) *HE%d { return nil }\n", k, k, hname, hd, hs, k)
	case "notFunc":
		fmt.Fprintf(&d, "var %s = 1\n", hname)
	case "missing":
	}
	h.hookName = hname
	params := []string{star(c.SrcPtr, srcBase)}
	if c.Nargs == 2 && c.ArgAny {
		params = append(params, "interface{}", "string")
	} else if c.Nargs == 2 {
		params = append(params, "int", "string")
	}
	results := star(c.DstPtr, dstBase)
	if c.RetErr {
		results = "(" + results + ", error)"
	}
	var notes []string
	if c.Style == "arg" {
		notes = append(notes, ":style arg")
	}
	if c.Recv {
		notes = append(notes, ":recv rc")
	}
	notes = append(notes, ":"+c.Which+"process "+hname)
	name := fmt.Sprintf("H%d", k)
	fkey := name
	if c.Recv {
		fkey = strings.TrimPrefix(srcBase, "ext.") + "." + name
	}
	method := fmt.Sprintf("%s(%s) %s", name, strings.Join(params, ", "), results)
	if c.Shared {
		// a companion method that sorts before this one and that the hook fits by construction:
		// operands, additional parameters and error result are the hook's own
		cp := []string{hs}
		switch c.HExtra {
		case "all":
			cp = append(cp, "int", "string")
		case "fewer":
			cp = append(cp, "int")
		case "wrong":
			cp = append(cp, "string", "int")
		case "wider":
			cp = append(cp, "interface{}", "string")
		}
		cres := hd
		if c.HErr {
			cres = "(" + hd + ", error)"
		}
		var own []string
		for _, n := range notes {
			own = append(own, "\t// "+n)
		}
		method = fmt.Sprintf("G%d(%s) %s\n%s\n\t%s", k, strings.Join(cp, ", "), cres, strings.Join(own, "\n"), method)
		notes = []string{":" + c.Which + "process " + hname}
	}
	if c.Namesake {
		var own []string
		for _, n := range notes {
			own = append(own, "\t// "+n)
		}
		if c.Kind == "ok" {
			// the companion's hook is ext.HookPPNN over ext's types; this method's hook is the local HookPPNN
			method = fmt.Sprintf("G%d(*ext.XS) *ext.XS\n%s\n\t%s", k, strings.Join(own, "\n"), method)
			notes = []string{":" + c.Which + "process ext.HookPPNN"}
		} else {
			// the companion's hook is a local function called like this method's imported hook, of another shape:
			// both operands by value, an error result
			bare := strings.TrimPrefix(hname, "ext.")
			fmt.Fprintf(&d, "type NS%d struct {\n\tX int\n\tY string\n}\n\ntype ND%d struct {\n\tX int\n\tY string\n}\n\nfunc %s(d ND%d, s NS%d) error { return nil }\n", k, k, bare, k, k)
			method = fmt.Sprintf("G%d(NS%d) (ND%d, error)\n%s\n\t%s", k, k, k, strings.Join(own, "\n"), method)
			notes = []string{":" + c.Which + "process " + bare}
		}
	}
	return &b1.Case{ID: core.HashID(string(js)), JSON: js, Func: fkey, Style: c.Style, Decls: d.String(), Notes: notes,
		Method: method, Alone: h.Fit.Reject || c.Namesake, Data: h}
}

// hookPkgSrc is the package of the blank-imported hooks: the hook functions of ext over ext's types, in a
// package that declares the name hk and lives at the path hkp/v2.
func hookPkgSrc() string {
	var sb strings.Builder
	sb.WriteString("package hk\n\nimport \"b1m/ext\"\n\n")
	for _, l := range strings.Split(universe.ExtSrc, "\n") {
		if strings.HasPrefix(l, "func Hook") {
			l = strings.ReplaceAll(l, "*XS", "*ext.XS")
			l = strings.ReplaceAll(l, " XS", " ext.XS")
			sb.WriteString(l + "\n")
		}
	}
	return sb.String()
}

// hookOptions are the run options of the hooks family.
func hookOptions(name string, compile bool) b1.Options {
	return b1.Options{Name: name, PerFile: 40, Family: "hooks", Compile: compile,
		Imports: []b1.ExtPkg{{Path: "hkp/v2", Src: hookPkgSrc()}}}
}

func hookDescribe(h *hookCase) string {
	c := h.Cfg
	m := fmt.Sprintf("method[style=%s src=%s dst=%s err=%v args=%d recv=%v]", c.Style, star(c.SrcPtr, "S"), star(c.DstPtr, "D"), c.RetErr, c.Nargs, c.Recv)
	hk := fmt.Sprintf(":%sprocess hook[%s dst=%s src=%s err=%v extra=%s]", c.Which, c.Kind, star(c.HDstPtr, "D"), star(c.HSrcPtr, "S"), c.HErr, c.HExtra)
	if c.ArgAny {
		m = strings.Replace(m, "args=2", "args=2(interface{}, string)", 1)
	}
	if c.Shared {
		hk += " shared with an earlier method it fits"
	}
	if c.Namesake {
		hk += " next to an earlier method whose hook, of another package, is called the same"
	}
	return m + " " + hk
}

func hookJudge(r *b1.Result) b1.Verdict {
	h := r.Case.Data.(*hookCase)
	v := b1.Verdict{Nontrivial: fmt.Sprint(h.Cfg)}
	if r.TimedOut || r.Crashed {
		v.What = fmt.Sprintf("%s: the tool crashed or hung: %s", hookDescribe(h), firstLine(r.Stderr))
		v.Deviation = hookDeviation(h, r)
		return v
	}
	if h.Fit.Reject {
		if r.Exit != 0 {
			v.OK = true
			return v
		}
		v.What = fmt.Sprintf("%s: the hook cannot fit the method but was accepted", hookDescribe(h))
		return v
	}
	if r.Exit != 0 {
		v.What = fmt.Sprintf("%s: a fitting hook was rejected (exit %d): %s", hookDescribe(h), r.Exit, firstLine(r.Stderr))
		return v
	}
	if r.Fn == nil {
		v.What = fmt.Sprintf("%s: no function %s in the output %s", hookDescribe(h), r.Case.Func, r.ParseErr)
		return v
	}
	var hooks []int
	firstWork, lastWork := -1, -1
	for i, s := range r.Fn.Body {
		switch s.Kind {
		case "hook":
			hooks = append(hooks, i)
		case "assign", "slice", "skip", "nomatch":
			if firstWork < 0 {
				firstWork = i
			}
			lastWork = i
		}
	}
	want := h.Fit.Call
	wantName := h.hookName
	render := func(name string, args []string, err bool) string {
		s := name + "(" + strings.Join(args, ", ") + ")"
		if err {
			s = "err = " + s + "; if err != nil { return }"
		}
		return s
	}
	wantText := render(wantName, want.Args, want.Err)
	if len(hooks) != 1 {
		v.What = fmt.Sprintf("%s: %d hook calls in the function, exactly one `%s` required", hookDescribe(h), len(hooks), wantText)
		return v
	}
	s := r.Fn.Body[hooks[0]]
	got := render(s.Call, s.Args, s.Err && s.ErrChecked)
	if s.Err && !s.ErrChecked {
		got = "err = " + s.Call + "(" + strings.Join(s.Args, ", ") + ") without error check"
	}
	if got != wantText {
		v.What = fmt.Sprintf("%s: generated call `%s`, required `%s`", hookDescribe(h), got, wantText)
		return v
	}
	if firstWork < 0 {
		v.What = fmt.Sprintf("%s: the function assigns nothing (harness expectation: at least one field)", hookDescribe(h))
		return v
	}
	if want.Pos == "pre" && !(hooks[0] < firstWork) {
		v.What = fmt.Sprintf("%s: the preprocess call comes after a field assignment", hookDescribe(h))
		return v
	}
	if want.Pos == "pre" {
		// the destination must exist already: in pointer-return style the allocation precedes the call
		for i := hooks[0] + 1; i < len(r.Fn.Body); i++ {
			if r.Fn.Body[i].Kind == "alloc" && r.Fn.Body[i].LHS == "DST" {
				v.What = fmt.Sprintf("%s: the preprocess call comes before the destination is allocated", hookDescribe(h))
				return v
			}
		}
	}
	if want.Pos == "post" && !(hooks[0] > lastWork) {
		v.What = fmt.Sprintf("%s: the postprocess call comes before a field assignment", hookDescribe(h))
		return v
	}
	v.OK = true
	return v
}

func hookDeviation(h *hookCase, r *b1.Result) string { return "" }

func hookCases(c *core.Ctx) []*b1.Case {
	hs := hookEnumerate(c)
	var cases []*b1.Case
	for i, h := range hs {
		cases = append(cases, hookConcretise(i, h))
	}
	return cases
}

// C10: static side (fit / reject / call shape) and run-time side (trace validation).
func C10(c *core.Ctx) {
	if c.Replay != "" {
		if !replayB1(c, nil, nil, hookJudge, nil, false) {
			replayUnsupported(c)
		}
		return
	}
	cases := hookCases(c)
	st := b1.Run(c, hookOptions("hooks", false), cases, hookJudge)
	// run-time side: executed generated functions, conjunct "hooks" of GenExecTrace
	gxCommon(c, "GenExecTraceC10.cfg", "C10", true, func(r gxRun) bool {
		pre, _ := r.begin["pre"].(map[string]any)
		post, _ := r.begin["post"].(map[string]any)
		return pre["on"] == true || post["on"] == true
	})
	c.Set("hook_fit_cases", st.Cases)
	c.Set("exhaustive", true)
	for _, j := range []int{0, len(cases) / 2, len(cases) - 1} {
		hc := cases[j].Data.(*hookCase)
		c.Sample(map[string]any{"cfg": hc.Cfg, "predicted": hc.Fit, "method": cases[j].Method, "notations": cases[j].Notes, "decls": cases[j].Decls})
	}
	c.Set("rule", "method shape (style x recv x source/destination pointer x error x 0/2 additional arguments) x hook shape (pre/post x destination/source pointer x error x extra parameters none/all/fewer/wrong x kind ok/imported/unexported/arity 0/arity 1/operand mismatch/two results/non-error result/not a function/missing), each with accept-and-call-shape or reject as Hooks.tla predicts; the emitted call, its error check and its position relative to allocation and assignments are compared")
}
