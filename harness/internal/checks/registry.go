// Package checks holds one entry point per property.
package checks

import (
	"time"

	"verif/internal/core"
)

// Registry maps property ids to their checks.
var Registry = map[string]func(*core.Ctx){
	"C01": C01,
	"C02": C02,
	"C03": C03,
	"C04": C04,
	"C05": C05,
	"C06": C06,
	"C07": C07,
	"C08": C08,
	"C09": C09,
	"C10": C10,
	"C11": C11,
	"C12": C12,
	"C13": C13,
	"C14": C14,
	"C15": C15,
	"C16": C16,
	"C17": C17,
	"C18": C18,
	"C19": C19,
}

func minutes(n int) time.Duration { return time.Duration(n) * time.Minute }

func firstLines(s string, n int) string {
	lines := splitLines(s)
	if len(lines) > n {
		lines = append(lines[:n], "...")
	}
	out := ""
	for i, l := range lines {
		if i > 0 {
			out += "\n"
		}
		out += l
	}
	return out
}

func splitLines(s string) []string {
	var out []string
	cur := ""
	for _, r := range s {
		if r == '\n' {
			out = append(out, cur)
			cur = ""
			continue
		}
		cur += string(r)
	}
	if cur != "" {
		out = append(out, cur)
	}
	return out
}
