// Package checks holds one entry point per property.
package checks

import (
	"time"

	"verif/internal/core"
)

// Registry maps property ids to their checks.
var Registry = map[string]func(*core.Ctx){
	"C01": C01,
	"C03": C03,
	"C04": C04,
	"C05": C05,
	"C06": C06,
	"C08": C08,
	"C09": C09,
	"C10": C10,
	"C11": C11,
	"C12": C12,
	"C13": C13,
	"C15": C15,
	"C16": C16,
	"C17": C17,
	"C18": C18,
	"C19": C19,
}

func minutes(n int) time.Duration { return time.Duration(n) * time.Minute }
