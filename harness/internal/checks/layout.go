package checks

import (
	"encoding/json"
	"fmt"
	"go/ast"
	"go/parser"
	"go/token"
	"os"
	"path/filepath"
	"regexp"
	"sort"
	"strings"
	"sync"

	"verif/internal/core"
)

// ---- C03 C11 C17: spec/Selection.tla ----

type layItem struct {
	K         string   `json:"k"`
	ID        string   `json:"id"`
	Form      string   `json:"form"`
	Doc       bool     `json:"doc"`
	Trail     bool     `json:"trail"`
	Gen       bool     `json:"gen"`
	Named     bool     `json:"named"`
	Marked    bool     `json:"marked"`
	Lookalike bool     `json:"lookalike"`
	Nmeth     int      `json:"nmeth"`
	Short     bool     `json:"short"`
	Oneline   bool     `json:"oneline"`
	Mdoc      bool     `json:"mdoc"`
	After     bool     `json:"after"`
	Gap       int      `json:"gap"`
	Long      bool     `json:"long"`
	Nm        string   `json:"nm"`
	Mention   bool     `json:"mention"`
	Gen2      bool     `json:"gen2"`
	name      string   // interface name fixed by layNames
	methods   []string // method names fixed by layNames (recvsame)
}
type layOut struct {
	K     string `json:"k"`
	ID    string `json:"id"`
	Doc   bool   `json:"doc"`
	Trail bool   `json:"trail"`
	Nf    int    `json:"nf"`
}
type layCase struct {
	Layout struct {
		Items   []layItem `json:"items"`
		Pkgdoc  bool      `json:"pkgdoc"`
		Build   string    `json:"build"`
		Imports string    `json:"imports"`
		Sibling string    `json:"sibling"`
		Embed   string    `json:"embed"`
		Pkggen  bool      `json:"pkggen"`
	} `json:"layout"`
	Rejected bool     `json:"rejected"`
	Out      []layOut `json:"out"`
	raw      string
}

func up(s string) string { return strings.ToUpper(s[:1]) + s[1:] }

// method names of an interface item
func layMethods(it *layItem) []string {
	if it.methods != nil {
		return it.methods
	}
	if it.Short && it.ID == "c1" {
		return []string{"F", "G"}[:it.Nmeth]
	}
	if it.ID == "emb2" {
		return []string{"EmbAlpha"} // the same method as PlainEmb's, with the same signature
	}
	if it.Short {
		return []string{"H", "J"}[:it.Nmeth]
	}
	return []string{up(it.ID) + "Alpha", up(it.ID) + "Beta"}[:it.Nmeth]
}

// layEmbedded is the interface the first converter interface embeds and the
// name of its one method ("" for none).
func layEmbedded(l *layCase) (intf, method string) {
	switch l.Layout.Embed {
	case "file", "dup", "redecl":
		return "PlainEmb", "EmbAlpha"
	case "sibling":
		return "SibEmb", "SibEmbAlpha"
	}
	return "", ""
}

// layFirstConv is the first converter interface of the file (nil for none).
func layFirstConv(l *layCase) *layItem {
	for i := range l.Layout.Items {
		it := &l.Layout.Items[i]
		if it.K == "intf" && (it.Named || it.Marked) {
			return it
		}
	}
	return nil
}

// layNames fixes the names of interfaces that are called relative to another one.
func layNames(l *layCase) {
	for i := range l.Layout.Items {
		it := &l.Layout.Items[i]
		if it.K != "intf" {
			continue
		}
		switch it.Nm {
		case "recvsame":
			for j := range l.Layout.Items {
				o := &l.Layout.Items[j]
				if j != i && o.K == "intf" && (o.Named || o.Marked) && o.Nm != "recvsame" {
					it.methods = append([]string(nil), layMethods(o)...)
				}
			}
			if it.methods == nil {
				core.Machinery("layout: interface %s is to share its method names with another converter interface, but there is none", it.ID)
			}
		case "long":
			base := layIntfName(it)
			it.name = base + strings.Repeat("X", 40-len(base))
		case "prefix":
			for j := range l.Layout.Items {
				o := &l.Layout.Items[j]
				if j != i && o.K == "intf" && (o.Named || o.Marked) && o.Nm != "prefix" {
					it.name = layIntfName(o) + "Storage"
				}
			}
			if it.name == "" {
				core.Machinery("layout: interface %s is to be called like another converter interface, but there is none", it.ID)
			}
		}
	}
}

func layIntfName(it *layItem) string {
	if it.name != "" {
		return it.name
	}
	switch {
	case it.Named:
		return "Convergen"
	case it.Marked && it.Short && !it.Doc:
		return up(it.ID) // as short as a name gets
	case it.Marked:
		return "Conv" + up(it.ID)
	case it.Lookalike:
		return "Look" + up(it.ID)
	}
	return "Plain" + up(it.ID)
}

// layFiller makes a comment line much longer than a directive line.
func layFiller(it *layItem) string {
	if !it.Long {
		return ""
	}
	return strings.Repeat(" and it goes on", 9)
}

const layTypes = `package p

type LayA struct {
	X     int
	Y     string
	U_Id  int
	Größe int
}

type LayB struct {
	X    int
	Y    string
	U_Id int
	V_2  int
	Höhe int
}

type A struct{ X int }

type B struct{ X int }

type KeepT struct{ X int }
`

// layRender renders the setup file of a layout.
func layRender(l *layCase) map[string]string {
	var sb strings.Builder
	lay := &l.Layout
	switch lay.Build {
	case "gobuild":
		sb.WriteString("//go:build convergen\n\n")
	case "plusbuild":
		sb.WriteString("// +build convergen\n\n")
	case "both":
		sb.WriteString("//go:build convergen\n// +build convergen\n\n")
	}
	if lay.Pkgdoc {
		sb.WriteString("// Package p is documented here tokPKGDOC.\n")
	}
	if lay.Pkggen {
		// a directive directly above the package clause: part of the package's doc comment, or all of it
		sb.WriteString("//go:generate echo tokGENpkg\n")
	}
	sb.WriteString("package p\n\n")
	usesAux := lay.Imports == "used" || lay.Imports == "mixed"
	if lay.Imports == "dot" {
		// a dot import: the package's names are the file's own
		sb.WriteString("import . \"laym/helper\"\n\n// KeepAux uses the import tokDOCaux.\nvar KeepAux = Value\n\n")
	}
	switch lay.Imports {
	case "used":
		sb.WriteString("import \"laym/helper\"\n\n")
	case "mixed":
		sb.WriteString("import (\n\t\"laym/helper\"\n\t_ \"laym/side\"\n)\n\n")
	}
	if usesAux {
		sb.WriteString("// KeepAux uses the import tokDOCaux.\nvar KeepAux = helper.Value\n\n")
	}
	if lay.Pkggen {
		// these layouts also carry a declaration on one line far longer than the 64 KiB a line scanner takes by default
		sb.WriteString("// KeepBlob is documented tokDOCblob.\nconst KeepBlob = \"" + strings.Repeat("0123456789abcdef", 4400) + "\"\n\n")
	}
	for i := range lay.Items {
		it := &lay.Items[i]
		switch it.K {
		case "float":
			fmt.Fprintf(&sb, "// floating comment tokFL%s attached to nothing%s\n", it.ID, layFiller(it))
			if it.Gen {
				fmt.Fprintf(&sb, "//go:generate echo tokGEN%s\n", it.ID)
			}
			sb.WriteString("\n")
			continue
		case "tmark":
			fmt.Fprintf(&sb, "// TMark%s is a struct, not an interface tokDOC%s.\n// :convergen\ntype TMark%s struct {\n\tA int\n}\n\n", up(it.ID), it.ID, up(it.ID))
			continue
		case "vmark":
			fmt.Fprintf(&sb, "// VMark%s is a variable, not an interface declaration tokDOC%s.\n// :convergen\nvar VMark%s interface {\n\tM(x int) string\n}\n\n", up(it.ID), it.ID, up(it.ID))
			continue
		case "decl":
			if it.Doc && it.Form == "blockvar" {
				fmt.Fprintf(&sb, "/* Keep%s is documented tokDOC%s\n   in a block comment. */\n", up(it.ID), it.ID)
			} else if it.Doc && it.Long {
				fmt.Fprintf(&sb, "// Keep%s is documented tokDOC%s%s\n", up(it.ID), it.ID, layFiller(it))
			} else if it.Doc && it.Mention {
				// prose that names a directive in the middle of a line is prose
				fmt.Fprintf(&sb, "// Keep%s is documented tokDOC%s\n// and run by //go:generate as the manual says tokDN%s\n// or under // +build convergen alone tokDP%s.\n", up(it.ID), it.ID, it.ID, it.ID)
			} else if it.Doc {
				fmt.Fprintf(&sb, "// Keep%s is documented tokDOC%s\n// on two lines.\n", up(it.ID), it.ID)
			}
			if it.Gen {
				fmt.Fprintf(&sb, "//go:generate echo tokGEN%s\n", it.ID)
			}
			if it.Gen && it.Gen2 {
				fmt.Fprintf(&sb, "//go:generate echo tokGENB%s\n//go:generate echo tokGENC%s\n", it.ID, it.ID)
			}
			tr := ""
			if it.Trail {
				tr = " // trailing tokTR" + it.ID
			}
			switch it.Form {
			case "var", "blockvar":
				fmt.Fprintf(&sb, "var Keep%s = 1%s\n", up(it.ID), tr)
			case "varblock":
				fmt.Fprintf(&sb, "var (\n\t// inner comment tokIN%s\n\tKeep%s = 1%s\n\n\tKeep%sB = \"two\"\n)\n", it.ID, up(it.ID), tr, up(it.ID))
			case "method":
				fmt.Fprintf(&sb, "func (k *KeepT) Keep%s(n int) int {\n\t// inside tokIN%s\n\treturn n + k.X\n}%s\n", up(it.ID), it.ID, tr)
			case "const":
				fmt.Fprintf(&sb, "const Keep%s = \"c\"%s\n", up(it.ID), tr)
			case "func":
				fmt.Fprintf(&sb, "func Keep%s() int {\n\t// inside tokIN%s\n\treturn 1\n}%s\n", up(it.ID), it.ID, tr)
			case "type":
				fmt.Fprintf(&sb, "type Keep%s struct {\n\tA int // field tokIN%s\n}%s\n", up(it.ID), it.ID, tr)
			}
			sb.WriteString("\n")
			continue
		}
		// interfaces
		selected := it.Named || it.Marked
		if it.Doc {
			fmt.Fprintf(&sb, "// %s is documented tokDOC%s.\n", layIntfName(it), it.ID)
		}
		if it.Lookalike {
			fmt.Fprintf(&sb, "// :convergenx is no marker tokLK%s\n// see :convergen in the manual\n", it.ID)
		}
		if it.Marked {
			sb.WriteString("// :convergen\n")
		}
		if it.Gen {
			sb.WriteString("//go:generate echo convergen\n")
		}
		ms := layMethods(it)
		sig := func(m string) string {
			if it.ID == "emb" || it.ID == "emb2" {
				return m + "(*LayA) *LayB" // embedded by a converter interface: a method of converter shape
			}
			if !selected {
				return m + "(x int) string"
			}
			if it.Short {
				return m + "(*A) *B"
			}
			if it.Mdoc && len(ms) == 2 && m == ms[1] {
				// an additional argument whose type is an interface LITERAL: braces inside the interface's own braces
				return m + "(*LayA, interface{ Len() int }) *LayB"
			}
			return m + "(*LayA) *LayB"
		}
		eq := ""
		if it.Nm == "alias" {
			eq = "= "
		}
		if it.Oneline {
			fmt.Fprintf(&sb, "type %s %sinterface{ %s }", layIntfName(it), eq, sig(ms[0]))
		} else {
			fmt.Fprintf(&sb, "type %s %sinterface {\n", layIntfName(it), eq)
			if emb, _ := layEmbedded(l); emb != "" && it == layFirstConv(l) {
				fmt.Fprintf(&sb, "\t%s\n", emb)
				switch lay.Embed {
				case "dup":
					sb.WriteString("\tPlainEmb2\n") // declares the same method: one member of the method set
				case "redecl":
					sb.WriteString("\tEmbAlpha(*LayA) *LayB\n") // the embedded method, declared again
				}
			}
			for k, m := range ms {
				if it.Mdoc {
					fmt.Fprintf(&sb, "\t// %s is documented tokMD%s%d.\n", m, it.ID, k)
					if it.Mention {
						fmt.Fprintf(&sb, "\t// it is regenerated by //go:generate whenever the types change tokMG%s%d\n", it.ID, k)
					}
					if selected {
						// notation lines interleaved with prose: every notation line goes, every prose line stays
						// the prose holds characters that are special to templates and format strings: prose is prose
						fmt.Fprintf(&sb, "\t// :typecast\n\t// second paragraph tokME%s%d costs $tokMH%s%d or ${tokMI%s%d} and 100%%d of $1\n\t// :stringer\n\t// :getter:off\n\t// last line tokMF%s%d\n", it.ID, k, it.ID, k, it.ID, k, it.ID, k)
					}
				}
				tr := ""
				if it.Trail && k == 0 {
					tr = " // trailing tokTR" + it.ID
				}
				if it.Nm == "recvsame" {
					sb.WriteString("\t// :recv rc\n")
				}
				if lay.Imports == "dot" && selected && k == 0 {
					sb.WriteString("\t// :conv HelpConv X\n")
				}
				if selected && !it.Short && k == len(ms)-1 && it.Mdoc {
					// field names with an underscore are ordinary Go identifiers
					sb.WriteString("\t// :map X V_2\n\t// :literal U_Id 7\n")
					// and so are names with letters beyond ASCII
					sb.WriteString("\t// :map Größe Höhe\n")
				}
				fmt.Fprintf(&sb, "\t%s%s\n", sig(m), tr)
			}
			sb.WriteString("}")
		}
		if it.After && it.Trail {
			// glued to the brace, as an editor may leave it
			fmt.Fprintf(&sb, "// after the brace tokAF%s", it.ID)
		} else if it.After {
			fmt.Fprintf(&sb, " // after the brace tokAF%s", it.ID)
		}
		sb.WriteString("\n")
		for g := 0; g < it.Gap; g++ {
			sb.WriteString("\n")
		}
	}
	files := map[string]string{"p/setup.go": sb.String(), "p/types.go": layTypes,
		"helper/helper.go": "package helper\n\nvar Value = 1\n\nfunc HelpConv(i int) int { return i + 1 }\n", "side/side.go": "package side\n"}
	switch lay.Sibling {
	case "marked":
		files["p/sib.go"] = "package p\n\n// :convergen\ntype SibMarked interface {\n\tSibAlpha(*LayA) *LayB\n}\n"
	case "named":
		files["p/sib.go"] = "package p\n\ntype Convergen interface {\n\tSibAlpha(*LayA) *LayB\n}\n"
	}
	if lay.Embed == "sibling" {
		files["p/sibemb.go"] = "package p\n\n// SibEmb is embedded by a converter interface of the input file.\ntype SibEmb interface {\n\tSibEmbAlpha(*LayA) *LayB\n}\n"
	}
	return files
}

// layObs is the projection of an output file.
type layObs struct {
	Blob       bool // the very long declaration arrived, with its doc comment
	Items      []layOut
	PkgDoc     bool
	Directives []string            // forbidden leftovers
	Problems   []string            // structural problems (unknown decls, broken interfaces...)
	FuncsOf    map[string][]string // interface id -> generated function names
	SibFuncs   bool
}

var reLeft = regexp.MustCompile(`(?m)^\s*//\s*(go:generate\b.*|go:build convergen\b.*|\+build convergen\b.*)$`)

// declDoc says whether the doc comment of a carried-over declaration is complete: its token line and - where the
// layout put them there - the prose lines that mention a directive.
func declDoc(it *layItem, cg *ast.CommentGroup) bool {
	has := func(tok string) bool { return cg != nil && strings.Contains(cg.Text(), tok) }
	if !has("tokDOC" + it.ID) {
		return false
	}
	if it.Doc && it.Mention && it.Form != "blockvar" && !it.Long {
		return has("tokDN"+it.ID) && has("tokDP"+it.ID)
	}
	return true
}

var reNoteLine = regexp.MustCompile(`^//\s*:\w`)

func layProject(l *layCase, src []byte) (*layObs, error) {
	fset := token.NewFileSet()
	f, err := parser.ParseFile(fset, "gen.go", src, parser.ParseComments)
	if err != nil {
		return nil, err
	}
	o := &layObs{FuncsOf: map[string][]string{}}
	text := string(src)
	if f.Doc != nil && strings.Contains(f.Doc.Text(), "tokPKGDOC") {
		o.PkgDoc = true
	}
	for _, m := range reLeft.FindAllString(text, -1) {
		o.Directives = append(o.Directives, strings.TrimSpace(m))
	}
	// method -> interface item
	owner := map[string]*layItem{}
	recvOwner := map[string]*layItem{} // methods (with receiver) generated from a :recv interface
	byDecl := map[string]*layItem{}
	for i := range l.Layout.Items {
		it := &l.Layout.Items[i]
		switch it.K {
		case "intf":
			for _, m := range layMethods(it) {
				if it.Nm == "recvsame" {
					recvOwner[m] = it
				} else {
					owner[m] = it
				}
			}
			byDecl[layIntfName(it)] = it
		case "vmark":
			byDecl["VMark"+up(it.ID)] = it
		case "decl":
			byDecl["Keep"+up(it.ID)] = it
		case "tmark":
			byDecl["TMark"+up(it.ID)] = it
		}
	}
	_, embMethod := layEmbedded(l)
	if embMethod != "" {
		owner[embMethod] = layFirstConv(l)
	}
	lineOf := func(p token.Pos) int { return fset.Position(p).Line }
	// comment token -> line
	tokLine := map[string]int{}
	reTok := regexp.MustCompile(`tok[A-Z]+[a-z0-9]+`)
	for _, cg := range f.Comments {
		for _, c := range cg.List {
			for _, t := range reTok.FindAllString(c.Text, -1) {
				tokLine[t] = lineOf(c.Pos())
			}
		}
	}
	docHas := func(cg *ast.CommentGroup, tok string) bool { return cg != nil && strings.Contains(cg.Text(), tok) }
	for _, d := range f.Decls {
		switch x := d.(type) {
		case *ast.FuncDecl:
			name := x.Name.Name
			if it, ok := recvOwner[name]; ok && x.Recv != nil {
				// generated as a method of the source type
				o.FuncsOf[it.ID] = append(o.FuncsOf[it.ID], name)
				doc := true
				if it.Mdoc {
					k := 0
					for i, m := range layMethods(it) {
						if m == name {
							k = i
						}
					}
					doc = docHas(x.Doc, fmt.Sprintf("tokMD%s%d", it.ID, k))
				}
				if n := len(o.Items); n > 0 && o.Items[n-1].K == "funcs" && o.Items[n-1].ID == it.ID {
					o.Items[n-1].Doc = o.Items[n-1].Doc && doc
				} else {
					o.Items = append(o.Items, layOut{K: "funcs", ID: it.ID, Doc: doc && it.Mdoc})
				}
				continue
			}
			if it, ok := owner[name]; ok && it != nil && x.Recv == nil && name == embMethod {
				// generated for the embedded method: belongs to the embedding interface
				o.FuncsOf[it.ID] = append(o.FuncsOf[it.ID], name)
				if n := len(o.Items); !(n > 0 && o.Items[n-1].K == "funcs" && o.Items[n-1].ID == it.ID) {
					o.Items = append(o.Items, layOut{K: "funcs", ID: it.ID, Doc: it.Mdoc})
				}
				continue
			}
			if it, ok := owner[name]; ok && it != nil && x.Recv == nil {
				// generated function
				k := 0
				for i, m := range layMethods(it) {
					if m == name {
						k = i
					}
				}
				doc := true
				if it.Mdoc {
					doc = docHas(x.Doc, fmt.Sprintf("tokMD%s%d", it.ID, k)) && docHas(x.Doc, fmt.Sprintf("tokME%s%d", it.ID, k)) && docHas(x.Doc, fmt.Sprintf("tokMF%s%d", it.ID, k))
					if want := fmt.Sprintf("costs $tokMH%s%d or ${tokMI%s%d} and 100%%d of $1", it.ID, k, it.ID, k); !docHas(x.Doc, want) {
						doc = false
						o.Problems = append(o.Problems, fmt.Sprintf("the prose of the doc of method %s did not arrive as written (%q)", name, want))
					}
					if it.Mention && !docHas(x.Doc, fmt.Sprintf("tokMG%s%d", it.ID, k)) {
						doc = false
						o.Problems = append(o.Problems, "the prose line of the doc of method "+name+" that mentions a directive is not in the function's doc")
					}
				}
				if x.Doc != nil {
					for _, c := range x.Doc.List {
						if reNoteLine.MatchString(c.Text) {
							o.Directives = append(o.Directives, "notation line in the doc of "+name+": "+c.Text)
						}
					}
				}
				o.FuncsOf[it.ID] = append(o.FuncsOf[it.ID], name)
				if n := len(o.Items); n > 0 && o.Items[n-1].K == "funcs" && o.Items[n-1].ID == it.ID {
					o.Items[n-1].Doc = o.Items[n-1].Doc && doc
				} else {
					o.Items = append(o.Items, layOut{K: "funcs", ID: it.ID, Doc: doc && it.Mdoc})
				}
				if !it.Mdoc && x.Doc != nil && strings.TrimSpace(x.Doc.Text()) != "" {
					o.Problems = append(o.Problems, fmt.Sprintf("function %s has a doc comment although its method has none: %q", name, strings.TrimSpace(x.Doc.Text())))
				}
				continue
			}
			if name == "SibAlpha" {
				o.SibFuncs = true
				continue
			}
			if it, ok := byDecl[name]; ok && it.K == "decl" {
				o.Items = append(o.Items, layOut{K: "decl", ID: it.ID, Doc: declDoc(it, x.Doc), Trail: tokLine["tokTR"+it.ID] == lineOf(x.End()) && tokLine["tokTR"+it.ID] != 0})
				if tokLine["tokIN"+it.ID] == 0 {
					o.Problems = append(o.Problems, "the comment inside "+name+" is lost")
				}
				continue
			}
			o.Problems = append(o.Problems, "unexpected function "+name)
		case *ast.GenDecl:
			if x.Tok == token.IMPORT {
				continue
			}
			for _, sp := range x.Specs {
				name := ""
				var end token.Pos
				switch s := sp.(type) {
				case *ast.ValueSpec:
					name, end = s.Names[0].Name, s.End()
				case *ast.TypeSpec:
					name, end = s.Name.Name, s.End()
				}
				if name == "KeepAux" {
					continue
				}
				if name == "KeepBlob" {
					o.Blob = docHas(x.Doc, "tokDOCblob") && strings.Contains(text, strings.Repeat("0123456789abcdef", 4400))
					continue
				}
				if strings.HasSuffix(name, "B") && byDecl[strings.TrimSuffix(name, "B")] != nil && byDecl[strings.TrimSuffix(name, "B")].Form == "varblock" {
					continue // second spec of a grouped declaration
				}
				it, ok := byDecl[name]
				if !ok {
					o.Problems = append(o.Problems, "unexpected declaration "+name)
					continue
				}
				switch it.K {
				case "decl":
					o.Items = append(o.Items, layOut{K: "decl", ID: it.ID, Doc: declDoc(it, x.Doc), Trail: tokLine["tokTR"+it.ID] == lineOf(end) && tokLine["tokTR"+it.ID] != 0})
					if (it.Form == "type" || it.Form == "varblock") && tokLine["tokIN"+it.ID] == 0 {
						o.Problems = append(o.Problems, "the comment inside "+name+" is lost")
					}
					if it.Form == "varblock" && !strings.Contains(text, "Keep"+up(it.ID)+"B") {
						o.Problems = append(o.Problems, "the second variable of the grouped declaration "+name+" is lost")
					}
				case "tmark", "vmark":
					o.Items = append(o.Items, layOut{K: "decl", ID: it.ID, Doc: docHas(x.Doc, "tokDOC"+it.ID)})
				case "intf":
					ts := sp.(*ast.TypeSpec)
					ifc, isIfc := ts.Type.(*ast.InterfaceType)
					item := layOut{K: "intf", ID: it.ID, Doc: docHas(x.Doc, "tokDOC"+it.ID)}
					if !isIfc || ifc.Methods == nil || len(ifc.Methods.List) != it.Nmeth {
						o.Problems = append(o.Problems, "interface "+name+" was carried over damaged")
					} else {
						for k, m := range layMethods(it) {
							if ifc.Methods.List[k].Names[0].Name != m {
								o.Problems = append(o.Problems, "interface "+name+": method "+m+" missing or out of place")
							}
							if it.Mdoc && !docHas(ifc.Methods.List[k].Doc, fmt.Sprintf("tokMD%s%d", it.ID, k)) {
								o.Problems = append(o.Problems, "interface "+name+": doc of method "+m+" lost")
							}
						}
						if it.Trail && tokLine["tokTR"+it.ID] != lineOf(ifc.Methods.List[0].End()) {
							o.Problems = append(o.Problems, "interface "+name+": trailing comment of its first method lost or moved")
						}
						if it.Lookalike && tokLine["tokLK"+it.ID] == 0 {
							o.Problems = append(o.Problems, "interface "+name+": marker-like doc line lost")
						}
					}
					o.Items = append(o.Items, item)
				}
			}
		}
	}
	// the doc comment of a converted interface goes away with it
	for i := range l.Layout.Items {
		it := &l.Layout.Items[i]
		if it.K == "intf" && (it.Named || it.Marked) && it.Doc && tokLine["tokDOC"+it.ID] != 0 {
			o.Directives = append(o.Directives, "doc comment of converter interface "+layIntfName(it)+" is still in the output")
		}
	}
	return o, nil
}

func layDescribe(l *layCase) string {
	var parts []string
	for _, it := range l.Layout.Items {
		switch it.K {
		case "decl":
			a := it.Form
			if it.Doc {
				a += "+doc"
			}
			if it.Gen {
				a += "+generate"
			}
			if it.Trail {
				a += "+trailing"
			}
			if it.Long {
				a += "+longline"
			}
			parts = append(parts, fmt.Sprintf("%s[%s]", it.ID, a))
		case "intf":
			a := layIntfName(&it)
			if it.Named || it.Marked {
				a += fmt.Sprintf(" conv methods=%d", it.Nmeth)
				if it.Marked {
					a += " :convergen"
				}
			}
			for _, kv := range []struct {
				b bool
				s string
			}{{it.Doc, "doc"}, {it.Gen, "generate"}, {it.Short, "short"}, {it.Oneline, "oneline"}, {it.Mdoc, "methoddoc"}, {it.Trail, "trailing"}, {it.After, "afterbrace"}, {it.Lookalike, "lookalike"}} {
				if kv.b {
					a += " " + kv.s
				}
			}
			a += fmt.Sprintf(" gap=%d", it.Gap)
			parts = append(parts, fmt.Sprintf("%s[%s]", it.ID, a))
		default:
			a := it.K
			if it.Gen {
				a += "+generate"
			}
			if it.Long {
				a += "+longline"
			}
			parts = append(parts, it.ID+"["+a+"]")
		}
	}
	return fmt.Sprintf("layout{%s} build=%s pkgdoc=%v pkggen=%v imports=%s sibling=%s", strings.Join(parts, " "), l.Layout.Build, l.Layout.Pkgdoc, l.Layout.Pkggen, l.Layout.Imports, l.Layout.Sibling)
}

type layRun struct {
	l     *layCase
	dir   string
	res   *core.RunResult
	obs   *layObs
	perr  string
	files map[string]string
}

func layEnumerate(c *core.Ctx, cfg string, keepOneIn int, coreCase func(*layCase) bool) []*layCase {
	var cases []*layCase
	total := 0
	res := core.MustTLC(c.Scratch, core.TLCRun{Module: "MCSelection", Config: cfg, Tags: []string{"CASE"}, Workers: 8, Timeout: minutes(15),
		OnLine: func(tag, js string) {
			total++
			var l layCase
			if err := json.Unmarshal([]byte(js), &l); err != nil {
				core.Machinery("bad CASE: %v: %s", err, js)
			}
			l.raw = js
			layNames(&l)
			if keepOneIn > 1 && !(coreCase != nil && coreCase(&l)) && hashMod(js, c.Seed, keepOneIn) != 0 {
				return
			}
			cases = append(cases, &l)
		}})
	c.AddTLC(res)
	c.AddCount("tlc_cases_total", int64(total))
	if len(cases) == 0 {
		core.Machinery("%s emitted no cases", cfg)
	}
	sort.Slice(cases, func(i, j int) bool { return cases[i].raw < cases[j].raw })
	return cases
}

// layRunAll materialises and runs every layout (one module per layout).
func layRunAll(c *core.Ctx, name string, cases []*layCase) []*layRun {
	tool := c.EnsureTool()
	root := filepath.Join(c.Scratch, "lay-"+name)
	runs := make([]*layRun, len(cases))
	mod := core.NewModule(root, "laym")
	all := map[string]string{}
	for i, l := range cases {
		files := layRender(l)
		r := &layRun{l: l, dir: fmt.Sprintf("l%05d", i), files: files}
		for p, content := range files {
			// every layout lives in its own directory tree below the shared module
			if strings.HasPrefix(p, "p/") {
				all[filepath.Join(r.dir, strings.TrimPrefix(p, "p/"))] = content
			} else {
				all[p] = content
			}
		}
		runs[i] = r
	}
	if err := core.WriteFiles(root, all); err != nil {
		core.Machinery("write layouts: %v", err)
	}
	if out, ok := mod.GoVet("convergen", "./..."); !ok {
		core.Machinery("%s: layouts do not type-check (harness bug):\n%s", name, out)
	}
	core.ParallelFor(len(runs), func(i int) {
		r := runs[i]
		r.res = tool.Run(core.RunOpts{Dir: filepath.Join(root, r.dir), Args: []string{"setup.go"}})
		if r.res.Exit == 0 && !r.res.TimedOut {
			b, err := os.ReadFile(filepath.Join(root, r.dir, "setup.gen.go"))
			if err != nil {
				r.perr = "exit 0 but no output file"
				return
			}
			r.files["p/setup.gen.go"] = string(b)
			o, perr := layProject(r.l, b)
			if perr != nil {
				r.perr = "output does not parse: " + perr.Error()
				return
			}
			r.obs = o
		}
	})
	return runs
}

func layReport(c *core.Ctx, family string, runs []*layRun, judge func(*layRun) ([]string, string)) {
	var mu sync.Mutex
	type bad struct {
		r    *layRun
		what string
		dev  string
	}
	var bads []bad
	for _, r := range runs {
		problems, dev := judge(r)
		if len(problems) > 0 {
			mu.Lock()
			bads = append(bads, bad{r, strings.Join(uniq(problems, 4), "; "), dev})
			mu.Unlock()
		}
	}
	for _, b := range bads {
		fl := map[string]string{"go.mod": "module laym\n\ngo 1.19\n"}
		for k, v := range b.r.files {
			fl[k] = v
		}
		p := c.WriteReplay(core.HashID(b.r.l.raw), &core.ReplayFile{Family: family, Case: json.RawMessage(b.r.l.raw), Files: fl, Command: []string{"convergen", "setup.go"},
			Observed: map[string]any{"exit": b.r.res.Exit, "stderr": firstLine(b.r.res.Stderr)}, Expected: b.r.l.Out, Diff: b.what})
		c.Report(b.dev, layDescribe(b.r.l)+": "+b.what, p)
	}
	c.AddCount("traces_validated_against_impl", int64(len(runs)))
	c.AddCount("evaluations", int64(len(runs)))
}

func fmtOut(xs []layOut) string {
	var p []string
	for _, x := range xs {
		s := x.K + ":" + x.ID
		if x.Doc {
			s += "+doc"
		}
		if x.Trail {
			s += "+trailing"
		}
		p = append(p, s)
	}
	return "[" + strings.Join(p, " ") + "]"
}

func layCrash(r *layRun) string {
	if r.res.TimedOut {
		return "the tool did not terminate"
	}
	if r.res.Crashed() {
		return "the tool crashed: " + firstLine(r.res.Stderr)
	}
	return ""
}

// C03: acceptance and one function per method, whatever the layout.
func C03(c *core.Ctx) {
	if c.Replay != "" {
		replayUnsupported(c)
	}
	keep := 4
	if c.Thorough() {
		keep = 1
	}
	cases := layEnumerate(c, "MCSelectionAccept.cfg", keep, func(l *layCase) bool {
		// fixed core: the shapes without any comment and without neighbours
		for _, it := range l.Layout.Items {
			if it.K == "intf" && it.ID == "c1" && (it.Doc || it.Mdoc || it.Trail || it.After || it.Gen) {
				return false
			}
		}
		return len(l.Layout.Items) == 1
	})
	runs := layRunAll(c, "c03", cases)
	layReport(c, "layout-accept", runs, func(r *layRun) ([]string, string) {
		var p []string
		c.Nontrivial(r.l.raw)
		if s := layCrash(r); s != "" {
			return []string{s}, ""
		}
		if r.res.Exit != 0 {
			return []string{fmt.Sprintf("a well-formed setup file was rejected (exit %d): %s", r.res.Exit, firstLine(r.res.Stderr))}, c03Deviation(r)
		}
		if r.obs == nil {
			return []string{r.perr}, ""
		}
		for i := range r.l.Layout.Items {
			it := &r.l.Layout.Items[i]
			if it.K != "intf" || !(it.Named || it.Marked) {
				continue
			}
			got := append([]string(nil), r.obs.FuncsOf[it.ID]...)
			sort.Strings(got)
			want := append([]string(nil), layMethods(it)...)
			sort.Strings(want)
			if strings.Join(got, ",") != strings.Join(want, ",") {
				p = append(p, fmt.Sprintf("interface %s: functions %v generated, one per method %v required", layIntfName(it), got, want))
			}
		}
		return p, ""
	})
	c.Set("layouts", len(cases))
	c.Set("exhaustive", c.Thorough())
	c.Sample(map[string]any{"layout": layDescribe(cases[len(cases)/2]), "setup": layRender(cases[len(cases)/2])["p/setup.go"]})
	c.Sample(map[string]any{"layout": layDescribe(cases[0]), "setup": layRender(cases[0])["p/setup.go"]})
	// a :conv may name a function that the same run generates, from this or another converter interface, wherever
	// the two stand in the file (ConvRef.tla): every such placement is a well-formed file
	convRefRun(c, true)
	c.Set("rule", "every shape of a converter interface (named Convergen / marked; doc, go:generate line, 1-2 methods, very short names so that the body is shorter than the 21-character placeholder, one-line form, method docs, trailing comment, comment after the closing brace, 0/1 blank lines to the next declaration) x preceding declaration x following declaration / adjacent second converter interface / plain interface (4608 layouts, TLC Selection.tla); each is one setup file; exit 0 and one function per method required; plus the 192 placements of ConvRef.tla (a :conv naming a function generated in the same run), accepted whenever the specification accepts them. Distinct = distinct layouts")
}

func c03Deviation(r *layRun) string { return "" }

// C11: carry-over.
func C11(c *core.Ctx) {
	if c.Replay != "" {
		replayUnsupported(c)
	}
	keep := 40
	if c.Thorough() {
		// the family has some 538 000 layouts; the thorough tier binds one in four (the model itself is explored in full)
		keep = 4
	}
	cases := layEnumerate(c, "MCSelectionCarry.cfg", keep, nil)
	runs := layRunAll(c, "c11", cases)
	layReport(c, "layout-carry", runs, func(r *layRun) ([]string, string) {
		var p []string
		c.Nontrivial(r.l.raw)
		if s := layCrash(r); s != "" {
			return []string{s}, ""
		}
		if r.res.Exit != 0 {
			// acceptance is C03's; nothing to compare
			return nil, ""
		}
		if r.obs == nil {
			return []string{r.perr}, ""
		}
		want := fmtOut(r.l.Out)
		got := fmtOut(r.obs.Items)
		if want != got {
			p = append(p, fmt.Sprintf("output items %s, the specification requires %s", got, want))
		}
		if r.l.Layout.Pkgdoc && !r.obs.PkgDoc {
			p = append(p, "the package doc comment is not the package doc of the output")
		}
		if r.l.Layout.Pkggen && !r.obs.Blob {
			p = append(p, "the declaration KeepBlob (one line of 70 400 characters) or its doc comment is not in the output")
		}
		for _, d := range r.obs.Directives {
			p = append(p, "left in the output: "+d)
		}
		p = append(p, r.obs.Problems...)
		// comments around a converter interface that are not part of it survive: the comment after its
		// closing brace (a trailing comment of one of its METHODS goes away with the method)
		for _, it := range r.l.Layout.Items {
			if it.K == "intf" && (it.Named || it.Marked) && it.After && !strings.Contains(r.files["p/setup.gen.go"], "tokAF"+it.ID) {
				p = append(p, "the comment after the closing brace of "+layIntfName(&it)+" is lost")
			}
		}
		if r.l.Layout.Imports == "mixed" && !strings.Contains(r.files["p/setup.gen.go"], `_ "laym/side"`) {
			p = append(p, "the blank import was dropped")
		}
		return p, c11Deviation(r, p)
	})
	c.Set("layouts", len(cases))
	c.Set("exhaustive", c.Thorough())
	c.Sample(map[string]any{"layout": layDescribe(cases[len(cases)/2]), "setup": layRender(cases[len(cases)/2])["p/setup.go"], "required_items": cases[len(cases)/2].Out})
	c.Set("rule", "declaration (var/func/type/const x doc / trailing / go:generate line in its doc) before, floating comment, converter interface (named without doc but with method docs / marked with doc), declaration after x package doc x build-constraint spelling (//go:build, // +build, both) x imports (none, used, used + blank) (22464 layouts, TLC Selection.tla); the output's declaration sequence with attached doc/trailing comments, package doc, forwarded method docs and absence of directives / notation lines / interface doc are compared with the model's output items. Distinct = distinct layouts")
}

// c11Deviation: KF-C11-1 - a declaration whose doc comment is a multi-line block comment followed by a
// //go:generate line in the same comment group loses its doc comment (and nothing else is wrong).
func c11Deviation(r *layRun, problems []string) string {
	if len(problems) != 1 || !strings.HasPrefix(problems[0], "output items") {
		return ""
	}
	var want, got []layOut
	want = r.l.Out
	got = r.obs.Items
	if len(want) != len(got) {
		return ""
	}
	culprit := false
	for i := range want {
		if w, g := want[i], got[i]; w.K == g.K && w.ID == g.ID && w.Doc == g.Doc && w.Trail == g.Trail {
			continue
		}
		// the only permitted difference: a blockvar+doc+generate declaration without its doc
		ok := false
		for _, it := range r.l.Layout.Items {
			if it.ID == want[i].ID && it.K == "decl" && it.Form == "blockvar" && it.Doc && it.Gen &&
				want[i].Doc && !got[i].Doc && want[i].K == got[i].K && want[i].Trail == got[i].Trail {
				ok = true
			}
		}
		if !ok {
			return ""
		}
		culprit = true
	}
	if culprit {
		return "block-doc-comment-with-generate-line-detached"
	}
	return ""
}

// C17: selection.
func C17(c *core.Ctx) {
	if c.Replay != "" {
		replayUnsupported(c)
	}
	cases := layEnumerate(c, "MCSelectionSelect.cfg", 1, nil)
	runs := layRunAll(c, "c17", cases)
	layReport(c, "layout-select", runs, func(r *layRun) ([]string, string) {
		var p []string
		c.Nontrivial(r.l.raw)
		if s := layCrash(r); s != "" {
			return []string{s}, ""
		}
		if r.l.Rejected {
			if r.res.Exit == 0 {
				p = append(p, "the input file has no converter interface but the run succeeded")
			}
			return p, ""
		}
		if r.res.Exit != 0 {
			return []string{fmt.Sprintf("the file has a converter interface but was rejected (exit %d): %s", r.res.Exit, firstLine(r.res.Stderr))}, ""
		}
		if r.obs == nil {
			return []string{r.perr}, ""
		}
		// which ids became functions, which stayed interfaces / types
		want := map[string]string{}
		for _, o := range r.l.Out {
			want[o.ID] = o.K
		}
		got := map[string]string{}
		for _, o := range r.obs.Items {
			if prev, ok := got[o.ID]; ok && prev != o.K {
				p = append(p, fmt.Sprintf("%s appears both as %s and as %s", o.ID, prev, o.K))
			}
			got[o.ID] = o.K
		}
		for id, k := range want {
			if got[id] != k {
				p = append(p, fmt.Sprintf("%s: %s required, found %q", id, map[string]string{"funcs": "converted to functions", "intf": "carried over as interface", "decl": "carried over as declaration"}[k], got[id]))
			}
		}
		for i := range r.l.Layout.Items {
			it := &r.l.Layout.Items[i]
			if it.K == "intf" && (it.Named || it.Marked) {
				g := append([]string(nil), r.obs.FuncsOf[it.ID]...)
				sort.Strings(g)
				w := append([]string(nil), layMethods(it)...)
				nf := 0
				for _, o := range r.l.Out {
					if o.K == "funcs" && o.ID == it.ID {
						nf = o.Nf
					}
				}
				if _, em := layEmbedded(r.l); em != "" && it == layFirstConv(r.l) {
					w = append(w, em)
				}
				if nf != len(w) {
					core.Machinery("C17: Selection.tla demands %d functions for %s, the concretisation has %d methods", nf, it.ID, len(w))
				}
				sort.Strings(w)
				if strings.Join(g, ",") != strings.Join(w, ",") {
					p = append(p, fmt.Sprintf("interface %s: functions %v, one per method %v required", layIntfName(it), g, w))
				}
			}
		}
		if r.obs.SibFuncs {
			p = append(p, "the marked interface of a sibling file was converted")
		}
		for _, pr := range r.obs.Problems {
			if strings.HasPrefix(pr, "interface ") || strings.HasPrefix(pr, "unexpected") {
				p = append(p, pr)
			}
		}
		return p, ""
	})
	c.Set("layouts", len(cases))
	c.Set("exhaustive", true)
	c.Sample(map[string]any{"layout": layDescribe(cases[len(cases)/2]), "setup": layRender(cases[len(cases)/2])["p/setup.go"], "required_items": cases[len(cases)/2].Out, "rejected": cases[len(cases)/2].Rejected})
	c.Set("rule", "all sequences of 1..3 declarations over {interface named Convergen, interface with a :convergen doc line, unmarked interface, interface whose doc has marker-like text that is no marker, non-interface type with a :convergen line} x sibling file {none, with a marked interface, with an interface named Convergen} x the first converter interface embedding {nothing, an unmarked interface of this file declared before or after it, an interface of a sibling file} (exhaustive); converted ids, surviving interfaces (methods, docs, trailing comments intact), rejection iff no converter interface in the input file, nothing generated for sibling files")
}
