package checks

import (
	"encoding/json"
	"fmt"
	"math/rand"
	"os"
	"path/filepath"
	"regexp"
	"sort"
	"strconv"
	"strings"
	"sync"
	"time"

	"verif/internal/core"
)

// ---- C14: spec/BadInput.tla over a catalogue of injections ----

type injection struct {
	ID    string
	Stage string // load find parse resolve build generate
	Must  string // reject | either
	Pos   string // where a rejection has to point: note | method | any | none
	Slot  string // note | method | field | file | intf  (two injections of one case occupy different slots)
	// concretisation
	Note     string // notation line on method G3 (without "// ")
	IntfNote string // notation lines in the doc comment of the converter interface (separated by \n)
	Method   string // replaces the signature of G3
	Decls    string // extra declarations (referenced functions)
	SrcField string
	DstField string
	File     string   // whole-file form: name of the form
	Args     []string // command line instead of the plain `setup.go`
	Solo     bool     // cannot be combined with another injection (the form has no method body to inject into)
	NoVet    bool     // the input does not type-check on purpose
}

func injCatalogue(seed int64, nSoup int) []injection {
	var c []injection
	note := func(id, text, must, stage string) {
		c = append(c, injection{ID: id, Stage: stage, Must: must, Pos: "note", Slot: "note", Note: text})
	}
	for _, n := range []struct{ id, text string }{
		{"style_noarg", ":style"}, {"style_bogus", ":style bogus"}, {"match_noarg", ":match"}, {"match_bogus", ":match bogus"},
		{"recv_noarg", ":recv"}, {"recv_badident", ":recv 1x"}, {"recv_keyword", ":recv type"}, {"recv_keyword_func", ":recv func"},
		{"recv_blank", ":recv _"}, {"recv_unicode", ":recv ñ"}, {"recv_same_as_dst", ":recv dst"}, {"skip_noarg", ":skip"}, {"skip_badregexp", ":skip /[/"},
		{"skip_openslash", ":skip /abc"}, {"map_one", ":map A"}, {"map_none", ":map"}, {"conv_one", ":conv CvOK"}, {"conv_none", ":conv"},
		{"lit_one", ":literal A"}, {"lit_none", ":literal"}, {"pre_none", ":preprocess"}, {"post_none", ":postprocess"},
		{"unknown", ":frobnicate x y"}, {"convergen_on_method", ":convergen"}, {"case_arg", ":case:off junk"}, {"colon_only", ":"},
		{"double_colon", "::"}, {"map_dollar0", ":map $0 A"}, {"map_dollar99", ":map $99 A"}, {"map_dollarx", ":map $x A"},
		{"map_dollar", ":map $ A"}, {"map_dollar1", ":map $1 A"}, {"map_dollar_neg", ":map $-1 A"}, {"map_dotdot", ":map A..B A"},
		{"map_trailingdot", ":map A. A"}, {"map_paren", ":map A( A"}, {"map_emptycall", ":map () A"}, {"conv_dollar", ":conv $2 A"},
		{"skip_long", ":skip " + strings.Repeat("A", 300)}, {"skip_unicode", ":skip ÅßK"}, {"map_getter_chain_missing", ":map X().Y().Z A"},
		{"lit_string_spaces", `:literal B "a b c"`}, {"tag", ":tag json"}, {"conv_type", ":conv:type x"}, {"conv_with", ":conv:with y"},
	} {
		note(n.id, n.text, "either", "parse")
	}
	// regular expressions whose text does not survive naive case handling, read before and after the case rule changes
	for _, n := range []struct{ id, re string }{{"quote", `/\QA.B\E/`}, {"named_group", `/(?P<Name>A)/`}, {"class_lu", `/\p{Lu}x/`}, {"upper_escapes", `/\S\W\D/`}, {"flags", `/(?U)A+/`}} {
		note("skipre_"+n.id, ":skip "+n.re, "either", "parse")
		note("skipre_"+n.id+"_then_caseoff", ":skip "+n.re+"\n:case:off", "either", "parse")
		note("skipre_"+n.id+"_after_caseoff", ":case:off\n:skip "+n.re, "either", "parse")
		note("skipre_"+n.id+"_case_flipflop", ":case:off\n:skip "+n.re+"\n:case\n:case:off", "either", "parse")
	}
	// separators other than the ASCII blank
	for _, n := range []struct{ id, text string }{{"lit_nbsp", ":literal A\u00a0\"x\""}, {"lit_vtab", ":literal A\v7"}, {"lit_emspace", ":literal\u2003A\u20037"},
		{"map_nbsp", ":map A\u00a0B"}, {"skip_nbsp", ":skip\u00a0A"}, {"conv_nbsp", ":conv CvOK\u00a0A"}, {"style_nbsp", ":style\u00a0arg"}, {"recv_nbsp", ":recv\u00a0x"},
		{"lit_tab", ":literal A\t7"}, {"lit_two_blanks", ":literal  A   7"}, {"lit_trailing_nbsp", ":literal A 7\u00a0"}} {
		note("sep_"+n.id, n.text, "either", "parse")
	}
	note("reverse_without_arg_style", ":reverse", "reject", "parse")
	note("conv_missing_func", ":conv NoSuchFunc A", "reject", "resolve")
	note("pre_missing_func", ":preprocess NoSuchFunc", "reject", "parse")
	note("post_missing_func", ":postprocess NoSuchFunc", "reject", "parse")
	note("conv_not_a_func", ":conv NotAFunc A", "reject", "resolve")
	note("pre_not_a_func", ":preprocess NotAFunc", "reject", "parse")
	note("conv_unknown_pkg", ":conv nopkg.F A", "reject", "resolve")
	note("lit_not_an_expression", ":literal A 1 2 3", "reject", "generate")
	note("lit_unterminated", `:literal B "abc`, "reject", "generate")
	// referenced converter functions of every arity
	for p := 0; p <= 3; p++ {
		for r := 0; r <= 3; r++ {
			ps := []string{}
			for i := 0; i < p; i++ {
				ps = append(ps, fmt.Sprintf("a%d int", i))
			}
			rs := []string{"int", "error", "int"}[:r]
			body := ""
			switch r {
			case 1:
				body = "return 0"
			case 2:
				body = "return 0, nil"
			case 3:
				body = "return 0, nil, 0"
			}
			name := fmt.Sprintf("CvP%dR%d", p, r)
			must := "reject"
			if p == 1 && (r == 1 || r == 2) {
				must = "either"
			}
			c = append(c, injection{ID: "conv_" + strings.ToLower(name), Stage: "resolve", Must: must, Pos: "note", Slot: "note",
				Note: ":conv " + name + " A", Decls: fmt.Sprintf("func %s(%s) (%s) { %s }\n", name, strings.Join(ps, ", "), strings.Join(rs, ", "), body)})
		}
	}
	c = append(c, injection{ID: "conv_second_result_not_error", Stage: "resolve", Must: "reject", Pos: "note", Slot: "note", Note: ":conv CvII2 A",
		Decls: "func CvII2(a int) (int, int) { return a, a }\n"})
	// notations in the doc comment of the converter interface: every kind, valid there or not, alone and
	// against a method that overrides or contradicts it
	for _, n := range []struct{ id, intf, meth string }{
		{"style_arg", ":style arg", ""}, {"style_bogus", ":style bogus", ""}, {"match_none", ":match none", ""}, {"match_bogus", ":match bogus", ""},
		{"case_off", ":case:off", ""}, {"getter", ":getter", ""}, {"stringer_typecast", ":stringer\n:typecast", ""}, {"recv", ":recv x", ""},
		{"reverse", ":reverse", ""}, {"style_arg_reverse", ":style arg\n:reverse", ""}, {"skip", ":skip A", ""}, {"skip_badregexp", ":skip /[/", ""},
		{"map", ":map A B", ""}, {"map_one", ":map A", ""}, {"conv", ":conv CvOK A", ""}, {"conv_missing", ":conv NoSuchFunc A", ""}, {"literal", ":literal A 1", ""},
		{"pre_missing", ":preprocess NoSuchFunc", ""}, {"post_missing", ":postprocess NoSuchFunc", ""}, {"unknown", ":frobnicate x", ""},
		{"convergen_junk", ":convergen junk", ""}, {"colon", ":", ""}, {"dollar", ":map $2 A", ""},
		{"style_arg_reverse_vs_return", ":style arg\n:reverse", ":style return"}, {"reverse_vs_style_arg", ":reverse", ":style arg"},
		{"style_arg_vs_reverse", ":style arg", ":reverse"}, {"recv_vs_recv_keyword", ":recv x", ":recv type"}, {"style_arg_recv_vs_reverse", ":style arg\n:recv x", ":reverse"},
		{"match_none_vs_bogus", ":match none", ":match bogus"}, {"skip_vs_map", ":skip A", ":map B A"}, {"case_off_vs_skip", ":case:off", ":skip a"},
	} {
		c = append(c, injection{ID: "intf_" + n.id, Stage: "parse", Must: "either", Pos: "note", Slot: "intf", IntfNote: n.intf, Note: n.meth, Solo: n.meth != ""})
	}
	// getter methods of every arity in the source position of :map and :conv
	for p := 0; p <= 1; p++ {
		for r := 0; r <= 3; r++ {
			ps := []string{"a0 int"}[:p]
			rs := []string{"int", "error", "int"}[:r]
			body := []string{"", "return 0", "return 0, nil", "return 0, nil, 0"}[r]
			name := fmt.Sprintf("GtP%dR%d", p, r)
			decl := fmt.Sprintf("func (s *BS) %s(%s) (%s) { %s }\n", name, strings.Join(ps, ", "), strings.Join(rs, ", "), body)
			c = append(c, injection{ID: "map_" + strings.ToLower(name), Stage: "build", Must: "either", Pos: "note", Slot: "note",
				Note: ":map " + name + "() A", Decls: decl})
			c = append(c, injection{ID: "conv_" + strings.ToLower(name), Stage: "build", Must: "either", Pos: "note", Slot: "note",
				Note: ":conv CvOK " + name + "() A", Decls: decl})
			c = append(c, injection{ID: "mapbare_" + strings.ToLower(name), Stage: "build", Must: "either", Pos: "note", Slot: "note",
				Note: ":map " + name + " A", Decls: decl})
		}
	}
	// hooks of every arity
	for p := 0; p <= 4; p++ {
		for r := 0; r <= 2; r++ {
			types := []string{"*BD", "*BS", "int", "string"}
			ps := []string{}
			for i := 0; i < p; i++ {
				ps = append(ps, fmt.Sprintf("a%d %s", i, types[i]))
			}
			rs := []string{"error", "int"}[:r]
			body := ""
			switch r {
			case 1:
				body = "return nil"
			case 2:
				body = "return nil, 0"
			}
			name := fmt.Sprintf("HkP%dR%d", p, r)
			// fits only with exactly (dst, src); an error result additionally needs an error-returning method
			// (which a method-shape injection of the same case may provide: C10 states the precise rule)
			must := "reject"
			if p == 2 && r <= 1 {
				must = "either"
			}
			c = append(c, injection{ID: "hook_" + strings.ToLower(name), Stage: "parse", Must: must, Pos: "note", Slot: "note",
				Note: ":preprocess " + name, Decls: fmt.Sprintf("func %s(%s) (%s) { %s }\n", name, strings.Join(ps, ", "), strings.Join(rs, ", "), body)})
		}
	}
	// variadic hooks and converters: the last parameter is a ...T
	for _, n := range []struct{ id, decl, note string }{
		{"hook_variadic_src", "func HkVarSrc(d *BD, s ...*BS) {}\n", ":preprocess HkVarSrc"},
		{"hook_variadic_dst", "func HkVarDst(d ...*BD) {}\n", ":postprocess HkVarDst"},
		{"hook_variadic_extra", "func HkVarX(d *BD, s *BS, x ...int) {}\n", ":preprocess HkVarX"},
		{"hook_variadic_extra_err", "func HkVarXE(d *BD, s *BS, x ...int) error { return nil }\n", ":postprocess HkVarXE"},
		{"hook_variadic_only", "func HkVarOnly(x ...interface{}) {}\n", ":preprocess HkVarOnly"},
		{"conv_variadic", "func CvVar(xs ...int) int { return 0 }\n", ":conv CvVar A"},
		{"conv_variadic_second", "func CvVar2(a int, xs ...int) int { return a }\n", ":conv CvVar2 A"},
	} {
		c = append(c, injection{ID: n.id, Stage: "parse", Must: "either", Pos: "note", Slot: "note", Note: n.note, Decls: n.decl, NoVet: false})
	}
	// method shapes
	meth := func(id, sig, must string, novet bool) {
		c = append(c, injection{ID: "method_" + id, Stage: "build", Must: must, Pos: "method", Slot: "method", Method: sig, NoVet: novet})
	}
	meth("no_params", "G3() *BD", "reject", false)
	meth("no_results", "G3(*BS)", "reject", false)
	meth("src_int", "G3(int) *BD", "reject", false)
	meth("dst_int", "G3(*BS) int", "reject", false)
	meth("src_slice", "G3([]BS) *BD", "reject", false)
	meth("dst_slice", "G3(*BS) []BD", "reject", false)
	meth("src_map", "G3(map[string]BS) *BD", "reject", false)
	meth("src_ptrptr", "G3(**BS) *BD", "reject", false)
	meth("dst_ptrptr", "G3(*BS) **BD", "reject", false)
	meth("src_error", "G3(error) *BD", "reject", false)
	meth("dst_error", "G3(*BS) error", "reject", false)
	meth("src_iface", "G3(interface{}) *BD", "reject", false)
	meth("src_func", "G3(func()) *BD", "reject", false)
	meth("src_chan", "G3(chan BS) *BD", "reject", false)
	meth("variadic", "G3(...*BS) *BD", "reject", false)
	meth("three_results", "G3(*BS) (*BD, int, error)", "either", false)
	meth("two_destinations", "G3(*BS) (*BD, *BD)", "either", false)
	meth("error_not_last", "G3(*BS) (error, *BD)", "reject", false)
	meth("anon_struct_src", "G3(struct{ A int }) *BD", "either", false)
	meth("same_type", "G3(*BS) *BS", "either", false)
	meth("named_results", "G3(s *BS) (d *BD, err error)", "either", false)
	meth("blank_names", "G3(_ *BS) (_ *BD)", "either", false)
	meth("arg_named_err", "G3(err *BS) *BD", "either", false)
	meth("undefined_src", "G3(*Undefined) *BD", "reject", true)
	meth("undefined_dst", "G3(*BS) *Undefined", "reject", true)
	meth("undefined_arg", "G3(*BS, Undefined) *BD", "reject", true)
	// fields outside the conventions
	field := func(id, sf, df string) {
		c = append(c, injection{ID: "field_" + id, Stage: "build", Must: "either", Pos: "none", Slot: "field", SrcField: sf, DstField: df})
	}
	// conversions to and from predeclared / package-less types under :typecast
	for _, n := range []struct{ id, sf, df string }{{"perror", "E *MyE", "E *error"}, {"error_from_iface", "E MyE", "E error"}, {"perror_rev", "E *error", "E *MyE"},
		{"pany", "E *int", "E *interface{}"}, {"named_error_slice", "E []MyE", "E []error"}} {
		c = append(c, injection{ID: "typecast_" + n.id, Stage: "build", Must: "either", Pos: "none", Slot: "field", SrcField: n.sf, DstField: n.df, Note: ":typecast", Solo: true,
			Decls: "type MyE interface{ Error() string }\n"})
	}
	field("error_both", "E error", "E error")
	field("error_dst_only", "", "E error")
	field("iface", "I interface{}", "I interface{}")
	field("iface_dst_only", "", "I interface{ M() }")
	field("func", "F func()", "F func()")
	field("func_dst_only", "", "F func(int) string")
	field("chan", "C chan int", "C chan int")
	field("map", "M map[string]int", "M map[string][]int")
	field("array", "R [3]int", "R [3]int")
	field("array_len", "R [3]int", "R [4]int")
	field("recursive_ptr", "Next *BS", "Next *BD")
	field("anon_struct", "N struct{ X int }", "N struct{ X int }")
	field("anon_struct_differs", "N struct{ X int }", "N struct{ X, Y int }")
	field("ptr_to_slice", "P *[]int", "P *[]int")
	field("slice_of_slices", "SS [][]int", "SS [][]int")
	field("slice_of_ptr_mismatch", "SP []*int", "SP []int")
	field("unexported", "u int", "u int")
	field("blank", "_ int", "_ int")
	field("embedded_ptr", "*Other", "*Other")
	field("complex", "Z complex128", "Z complex64")
	field("uintptr", "U uintptr", "U unsafePointerLike")
	// whole-file forms
	for _, f := range []struct{ id, must string }{{"grouped_decl", "either"}, {"embedded_interface", "either"}, {"empty_interface", "either"},
		{"no_converter_interface", "reject"}, {"alias_interface", "either"}, {"interface_with_type_set", "either"}, {"only_comments", "reject"},
		// unusual but well-formed files: nothing to complain about, nothing may be dropped
		{"two_recv_same_var", "accept"}, {"line_directive", "accept"},
		// a setup file that imports "C": the go command hands the loader a translated file in its place
		{"cgo_import", "either"}} {
		c = append(c, injection{ID: "file_" + f.id, Stage: "find", Must: f.must, Pos: "none", Slot: "file", File: f.id,
			Solo: f.id == "empty_interface" || f.id == "only_comments", NoVet: f.id == "cgo_import"})
	}
	// command lines that point the output at a source file
	c = append(c, injection{ID: "cli_out_is_setup", Stage: "load", Must: "reject", Pos: "none", Slot: "cli", Solo: true, Args: []string{"-out", "setup.go", "setup.go"}})
	c = append(c, injection{ID: "cli_dry_out_is_setup", Stage: "load", Must: "either", Pos: "none", Slot: "cli", Solo: true, Args: []string{"-dry", "-out", "setup.go", "setup.go"}})
	c = append(c, injection{ID: "cli_out_is_setup_abs_dot", Stage: "load", Must: "reject", Pos: "none", Slot: "cli", Solo: true, Args: []string{"-out", "./setup.go", "setup.go"}})
	// a flag that is no business of the input's: whatever the run makes of the setup file, it makes of it with -log too
	c = append(c, injection{ID: "cli_log", Stage: "load", Must: "accept", Pos: "none", Slot: "cli", Args: []string{"-log", "setup.go"}})
	// byte soup in notation position
	alphabet := []string{":", "$", "/", "(", ")", ".", "\\", "[", "A", "map", "skip", "conv", "literal", " ", "*", "\"", "\u00a0", "\v", "\u2003"}
	rng := rand.New(rand.NewSource(seed))
	seen := map[string]bool{}
	for len(seen) < nSoup {
		n := 1 + rng.Intn(5)
		s := ":"
		for i := 0; i < n; i++ {
			s += alphabet[rng.Intn(len(alphabet))]
		}
		if seen[s] || strings.Contains(s, "\n") {
			continue
		}
		seen[s] = true
		c = append(c, injection{ID: fmt.Sprintf("soup_%03d", len(seen)), Stage: "parse", Must: "either", Pos: "note", Slot: "note", Note: s})
	}
	return c
}

// injTable renders BadCatalogue.tla from the catalogue (single source of truth: the Go table).
func injTable(c []injection) string {
	var ids, recs []string
	for _, i := range c {
		ids = append(ids, `"`+i.ID+`"`)
		recs = append(recs, fmt.Sprintf(`"%s" :> [stage |-> "%s", must |-> "%s", pos |-> "%s", slot |-> "%s", solo |-> %s, ctx |-> %s]`, i.ID, i.Stage, i.Must, i.Pos, i.Slot, strings.ToUpper(fmt.Sprint(i.Solo)),
			// ctx: the verdict on this injection depends on settings the method inherits from its interface
			strings.ToUpper(fmt.Sprint(i.ID == "reverse_without_arg_style"))))
	}
	return "---- MODULE BadCatalogue ----\n(* generated by harness/internal/checks/c14.go from the injection catalogue *)\nEXTENDS TLC, FiniteSets\n" +
		"InjIds == {" + strings.Join(ids, ", ") + "}\n" +
		"Inj == " + strings.Join(recs, " @@ ") + "\n" +
		"\\* two injections of one case occupy different slots\n" +
		"\\* ... and one whose verdict depends on inherited settings (a :reverse that lacks :style arg) is not paired with notations of the interface\n" +
		"Compatible(S) == \\A a, b \\in S : a # b => Inj[a].slot # Inj[b].slot /\\ ~Inj[a].solo /\\ ~Inj[b].solo /\\ ~(Inj[a].ctx /\\ Inj[b].slot = \"intf\")\n====\n"
}

type badCase struct {
	Inj       []string `json:"inj"`
	Permitted []string `json:"permitted"`
	Pos       []string `json:"pos"`
	raw       string
}

const c14Types = `package p

type BS struct {
	A int
	B string
%s}

type BD struct {
	A int
	B string
%s}

type Other struct{ Q int }

type unsafePointerLike uintptr

var NotAFunc = 1

func CvOK(i int) int { return i }

%s`

// c14Render builds the files of a case and returns them with the line numbers of the injected note and of method G3.
func c14Render(injs []injection) (files map[string]string, noteLine, methodLine int, funcs []string) {
	var note, method, decls, sf, df, file, intfNote string
	method = "G3(*BS) *BD"
	for _, i := range injs {
		if i.Note != "" {
			note = i.Note
		}
		if i.IntfNote != "" {
			intfNote = i.IntfNote
		}
		if i.Method != "" {
			method = i.Method
		}
		decls += i.Decls
		if i.SrcField != "" {
			sf += "\t" + i.SrcField + "\n"
		}
		if i.DstField != "" {
			df += "\t" + i.DstField + "\n"
		}
		if i.File != "" {
			file = i.File
		}
	}
	var sb strings.Builder
	sb.WriteString("//go:build convergen\n\npackage p\n\n")
	line := 5
	if file == "cgo_import" {
		sb.WriteString("import \"C\"\n\n")
		line += 2
	}
	w := func(s string) {
		sb.WriteString(s)
		line += strings.Count(s, "\n")
	}
	body := func() {
		w("\t// :typecast\n\tG1(*BS) *BD\n\tG2(*BS) (*BD, error)\n")
		if note != "" {
			noteLine = line
			for _, l := range strings.Split(note, "\n") {
				w("\t// " + l + "\n")
			}
		}
		methodLine = line
		w("\t" + method + "\n")
	}
	funcs = []string{"G1", "G2", "G3"}
	if intfNote != "" && (file == "" || file == "embedded_interface" || file == "interface_with_type_set") {
		if file == "embedded_interface" {
			// the notations belong to the converter interface, which comes second in that form: see below
		} else {
			for _, l := range strings.Split(intfNote, "\n") {
				w("// " + l + "\n")
			}
		}
	}
	switch file {
	case "", "cgo_import":
		w("type Convergen interface {\n")
		body()
		w("}\n")
	case "grouped_decl":
		w("type (\n\tBefore int\n\n\tConvergen interface {\n")
		body()
		w("\t}\n\n\tAfter string\n)\n")
	case "embedded_interface":
		w("type Base interface {\n\tG0(*BS) *BD\n}\n\n")
		if intfNote != "" {
			for _, l := range strings.Split(intfNote, "\n") {
				w("// " + l + "\n")
			}
		}
		w("type Convergen interface {\n\tBase\n")
		body()
		w("}\n")
		funcs = append(funcs, "G0")
	case "empty_interface":
		w("type Convergen interface{}\n")
		funcs = nil
	case "no_converter_interface":
		w("type Plain interface {\n")
		body()
		w("}\n")
		funcs = nil
	case "alias_interface":
		w("type Convergen = interface {\n")
		body()
		w("}\n")
	case "interface_with_type_set":
		w("type Convergen interface {\n")
		body()
		w("}\n\ntype Number interface{ ~int | ~int64 }\n")
	case "only_comments":
		w("// nothing but comments\n// :convergen\n")
		funcs = nil
	case "two_recv_same_var":
		// two converter interfaces, a method of the same name in each, the same receiver name - on two types
		w("type Convergen interface {\n\t// :recv m\n\tToD(*BS) *BD\n")
		body()
		w("}\n\n// :convergen\ntype Second interface {\n\t// :recv m\n\tToD(*Other) *BD\n}\n")
		funcs = append(funcs, "BS.ToD", "Other.ToD")
	case "line_directive":
		// a //line directive (as generators and preprocessors leave them) renames positions, not files
		w("//line gen/template.tmpl:100\ntype Convergen interface {\n")
		body()
		w("}\n")
		noteLine, methodLine = 0, 0
	}
	files = map[string]string{"setup.go": sb.String(), "types.go": fmt.Sprintf(c14Types, sf, df, decls)}
	return
}

var rePosLine = regexp.MustCompile(`^(\S+?\.go):(\d+):(\d+): `)

// C14 runs the bad-input check.
func C14(c *core.Ctx) {
	if c.Replay != "" {
		replayUnsupported(c)
	}
	nSoup, maxInj, keep2 := 150, 2, 40
	if c.Thorough() {
		nSoup, keep2 = 1500, 6
	}
	cat := injCatalogue(c.Seed, nSoup)
	byID := map[string]*injection{}
	for i := range cat {
		byID[cat[i].ID] = &cat[i]
	}
	var cases []*badCase
	total := 0
	res := core.MustTLC(c.Scratch, core.TLCRun{Module: "BadInput", Config: fmt.Sprintf("MCBadInput%d.cfg", maxInj), Extra: map[string]string{"BadCatalogue.tla": injTable(cat)},
		Tags: []string{"CASE"}, Workers: 8, Timeout: minutes(30), HeapGB: 8,
		OnLine: func(tag, js string) {
			total++
			var b badCase
			if err := json.Unmarshal([]byte(js), &b); err != nil {
				core.Machinery("bad CASE: %v: %s", err, js)
			}
			b.raw = js
			sort.Strings(b.Inj)
			// all single injections; a seeded sample of the pairs
			if len(b.Inj) > 1 && hashMod(strings.Join(b.Inj, "+"), c.Seed, keep2) != 0 {
				// the pairs with the -log flag are sampled more densely: one in four
				if !(b.Inj[0] == "cli_log" || b.Inj[1] == "cli_log") || hashMod(strings.Join(b.Inj, "+"), c.Seed, 4) != 0 {
					return
				}
			}
			cases = append(cases, &b)
		}})
	c.AddTLC(res)
	c.Set("tlc_cases_total", total)
	sort.Slice(cases, func(i, j int) bool { return strings.Join(cases[i].Inj, "+") < strings.Join(cases[j].Inj, "+") })
	tool := c.EnsureTool()
	root := filepath.Join(c.Scratch, "c14")
	mod := core.NewModule(root, "c14m")
	type run struct {
		b          *badCase
		dir        string
		injs       []injection
		files      map[string]string
		noteLine   int
		methodLine int
		funcs      []string
		res        *core.RunResult
		noVet      bool
	}
	runs := make([]*run, len(cases))
	all := map[string]string{}
	for i, b := range cases {
		r := &run{b: b, dir: fmt.Sprintf("d%05d", i)}
		for _, id := range b.Inj {
			r.injs = append(r.injs, *byID[id])
			if byID[id].NoVet {
				r.noVet = true
			}
		}
		r.files, r.noteLine, r.methodLine, r.funcs = c14Render(r.injs)
		for p, s := range r.files {
			all[filepath.Join(r.dir, p)] = s
		}
		runs[i] = r
	}
	if err := core.WriteFiles(root, all); err != nil {
		core.Machinery("write: %v", err)
	}
	// the sibling file with the types must be valid Go in every case (the setup file may be bad on purpose):
	// check one representative package per distinct types.go
	seenTypes := map[string]bool{}
	for _, r := range runs {
		if r.noVet || seenTypes[r.files["types.go"]] {
			continue
		}
		seenTypes[r.files["types.go"]] = true
		if out, ok := mod.GoVet("", "./"+r.dir); !ok {
			core.Machinery("C14: the untagged part of case %v does not type-check (harness bug): %s", r.b.Inj, out)
		}
	}
	core.ParallelFor(len(runs), func(i int) {
		args := []string{"setup.go"}
		for _, in := range runs[i].injs {
			if in.Args != nil {
				args = in.Args
			}
		}
		limit := 10 * time.Second
		for _, inj := range runs[i].injs {
			if inj.File == "cgo_import" {
				limit = 60 * time.Second // the go command runs cgo and the C compiler first
			}
		}
		runs[i].res = tool.Run(core.RunOpts{Dir: filepath.Join(root, runs[i].dir), Args: args, Timeout: limit})
	})
	var mu sync.Mutex
	kinds := map[string]bool{}
	for _, r := range runs {
		var problems []string
		res := r.res
		permitted := map[string]bool{}
		for _, p := range r.b.Permitted {
			permitted[p] = true
		}
		desc := func() string {
			var parts []string
			for _, i := range r.injs {
				switch {
				case i.IntfNote != "":
					parts = append(parts, fmt.Sprintf("%s[interface doc: %s; method: %s]", i.ID, strings.ReplaceAll(i.IntfNote, "\n", " | "), i.Note))
				case i.Note != "":
					parts = append(parts, fmt.Sprintf("%s[// %s]", i.ID, strings.ReplaceAll(i.Note, "\n", " | ")))
				case i.Method != "":
					parts = append(parts, fmt.Sprintf("%s[%s]", i.ID, i.Method))
				case i.DstField != "":
					parts = append(parts, fmt.Sprintf("%s[src %q dst %q]", i.ID, i.SrcField, i.DstField))
				default:
					parts = append(parts, i.ID)
				}
			}
			return strings.Join(parts, " + ")
		}
		switch {
		case res.TimedOut:
			problems = append(problems, "the tool did not terminate within its time limit (10 s; 60 s with cgo)")
		case res.Crashed():
			problems = append(problems, "the tool crashed: "+firstLine(res.Stderr))
		case res.Exit == 0:
			if !permitted["accept"] {
				problems = append(problems, "the input is illegal (another property demands rejection) but the run succeeded")
			} else {
				b, err := os.ReadFile(filepath.Join(root, r.dir, "setup.gen.go"))
				if err != nil {
					problems = append(problems, "exit 0 but no output file")
				} else {
					fs := splitFuncs(string(b))
					for _, f := range r.funcs {
						if i := strings.Index(f, "."); i >= 0 {
							// a method of the type before the dot
							if !regexp.MustCompile(`(?m)^func \(\w+ \*?` + f[:i] + `\) ` + f[i+1:] + `\(`).MatchString(string(b)) {
								problems = append(problems, fmt.Sprintf("success reported but method %s was dropped", f))
							}
							continue
						}
						if _, ok := fs[f]; !ok {
							problems = append(problems, fmt.Sprintf("success reported but method %s was dropped", f))
						}
					}
				}
			}
		default:
			if strings.TrimSpace(res.Stderr) == "" {
				problems = append(problems, fmt.Sprintf("exit %d without a message on stderr", res.Exit))
			}
			if !permitted["reject"] {
				problems = append(problems, fmt.Sprintf("the input is well formed but the run failed (exit %d): %s", res.Exit, firstLine(res.Stderr)))
			}
			// position: only when every injection of the case is a notation / method injection
			posDemanded := true
			for _, i := range r.injs {
				if i.Slot != "note" && i.Slot != "method" && i.Slot != "intf" {
					posDemanded = false
				}
			}
			intfCase := false
			for _, i := range r.injs {
				if i.Slot == "intf" {
					intfCase = true
				}
			}
			if posDemanded && strings.TrimSpace(res.Stderr) != "" {
				m := rePosLine.FindStringSubmatch(firstLine(res.Stderr))
				ok := false
				if m != nil && filepath.Base(m[1]) == "setup.go" {
					ln, _ := strconv.Atoi(m[2])
					// the offending item: the notation, its method, or the interface declaration
					if (r.noteLine != 0 && ln >= r.noteLine && ln < r.methodLine) || ln == r.methodLine || ln == 5 {
						ok = true
					}
					// notations of the interface doc: the notation itself, the interface, or a method that inherits it
					if intfCase && ln >= 5 && ln <= r.methodLine {
						ok = true
					}
				}
				if !ok {
					problems = append(problems, fmt.Sprintf("the diagnostic does not start with the position of the offending notation (line %d) or method (line %d): %q", r.noteLine, r.methodLine, firstLine(res.Stderr)))
				}
			}
		}
		mu.Lock()
		for _, i := range r.injs {
			k := i.ID
			if strings.HasPrefix(k, "soup_") {
				k = "soup"
			}
			kinds[k] = true
		}
		mu.Unlock()
		if len(problems) > 0 {
			fl := map[string]string{"go.mod": "module c14m\n\ngo 1.19\n"}
			for p, s := range r.files {
				fl["p/"+p] = s
			}
			path := c.WriteReplay(core.HashID(r.b.raw+r.files["setup.go"]), &core.ReplayFile{Family: "badinput", Case: json.RawMessage(r.b.raw), Files: fl, Command: []string{"convergen", "setup.go"},
				Observed: map[string]any{"exit": res.Exit, "stderr": firstLines(res.Stderr, 4)}, Expected: r.b.Permitted, Diff: strings.Join(problems, "; ")})
			c.Report(c14Deviation(r.injs, problems), desc()+": "+strings.Join(problems, "; "), path)
		}
	}
	for k := range kinds {
		c.Nontrivial(k)
	}
	c.AddCount("traces_validated_against_impl", int64(len(runs)))
	c.AddCount("evaluations", int64(len(runs)))
	c.Set("catalogue_size", len(cat))
	c.Set("exhaustive", false)
	for _, j := range []int{len(runs) / 7, len(runs) / 2, len(runs) - 3} {
		if j >= 0 && j < len(runs) {
			c.Sample(map[string]any{"injections": runs[j].b.Inj, "permitted": runs[j].b.Permitted, "setup": runs[j].files["setup.go"]})
		}
	}
	c.Set("rule", "a valid three-method base program plus one injection (all of the catalogue) or two injections in different slots (seeded sample): malformed / misplaced / unknown notations, seeded byte soup in notation position, converters with 0..3 parameters x 0..3 results, hooks with 0..4 parameters x 0..2 results, non-functions, missing names, 26 method shapes (no parameter / result, non-struct, **T, error / interface / func / chan operands, variadic, undefined types), 21 field shapes (error, interface, func, chan, map, array, anonymous, recursive pointer, embedded pointer...), 31 notation sets in the doc comment of the converter interface (every kind, alone and against a method that overrides or contradicts it), 7 whole-file forms (grouped declaration, embedded interface, empty interface, alias, no converter interface); BadInput.tla computes the permitted outcomes; the process must end within 10 s without crash, rejection needs a message (positioned at the notation / method for those injections), success must not drop a method. Distinct = distinct injection kinds exercised")
}

func c14Deviation(injs []injection, problems []string) string { return "" }
