package checks

import (
	"bufio"
	"encoding/json"
	"fmt"
	"os"
	"path/filepath"
	"regexp"
	"sort"
	"strings"
	"verif/internal/b1"

	"verif/internal/chartab"
	"verif/internal/core"
)

// ---- C19: matchers. Binding B4 (object replay) + end-to-end skip decisions.

type mQuery struct {
	S   []string `json:"s"`
	C   bool     `json:"c"`
	Ans bool     `json:"ans"`
}
type mCase struct {
	Pat  chartab.Pat `json:"pat"`
	Init bool        `json:"init"`
	Hist []mQuery    `json:"hist"`
}

type oNote struct {
	K string      `json:"k"`
	P chartab.Pat `json:"p"`
}
type oCase struct {
	Notes   []oNote `json:"notes"`
	Exact   bool    `json:"exact"`
	Answers struct {
		Skip []struct {
			S   []string `json:"s"`
			Ans bool     `json:"ans"`
		} `json:"skip"`
		Name []struct {
			A   []string `json:"a"`
			B   []string `json:"b"`
			Ans bool     `json:"ans"`
			Eq  bool     `json:"eq"`
		} `json:"name"`
	} `json:"answers"`
}

// driver request/response (one JSON object per line)
type drvReq struct {
	Kind  string      `json:"kind"` // pm | opts
	Text  string      `json:"text,omitempty"`
	Init  bool        `json:"init,omitempty"`
	Q     []drvQuery  `json:"q,omitempty"`
	Notes []drvNote   `json:"notes,omitempty"`
	Skip  []string    `json:"skip,omitempty"`
	Names [][2]string `json:"names,omitempty"`
}
type drvQuery struct {
	S string `json:"s"`
	C bool   `json:"c"`
}
type drvNote struct {
	K    string `json:"k"`
	Text string `json:"text,omitempty"`
}
type drvResp struct {
	Err   string `json:"err,omitempty"`
	Ans   []bool `json:"ans,omitempty"`
	Skip  []bool `json:"skip,omitempty"`
	Cmp   []bool `json:"cmp,omitempty"`   // Options.CompareFieldName
	Ident []bool `json:"ident,omitempty"` // IdentMatcher.Match(b, exact)
	Lit   []bool `json:"lit,omitempty"`   // LiteralSetter.Match(b, exact)
	Conv  []bool `json:"conv,omitempty"`  // FieldConverter.Match(b, b) with (a, a)
	NameM []bool `json:"namem,omitempty"` // NameMatcher.Match(b, b, true)
}

const matcherDriverSrc = `package main

import (
	"bufio"
	"encoding/json"
	"fmt"
	"os"

	"github.com/reedom/convergen/pkg/option"
)

type query struct {
	S string ` + "`json:\"s\"`" + `
	C bool   ` + "`json:\"c\"`" + `
}
type note struct {
	K    string ` + "`json:\"k\"`" + `
	Text string ` + "`json:\"text\"`" + `
}
type req struct {
	Kind  string      ` + "`json:\"kind\"`" + `
	Text  string      ` + "`json:\"text\"`" + `
	Init  bool        ` + "`json:\"init\"`" + `
	Q     []query     ` + "`json:\"q\"`" + `
	Notes []note      ` + "`json:\"notes\"`" + `
	Skip  []string    ` + "`json:\"skip\"`" + `
	Names [][2]string ` + "`json:\"names\"`" + `
}
type resp struct {
	Err   string ` + "`json:\"err,omitempty\"`" + `
	Ans   []bool ` + "`json:\"ans,omitempty\"`" + `
	Skip  []bool ` + "`json:\"skip,omitempty\"`" + `
	Cmp   []bool ` + "`json:\"cmp,omitempty\"`" + `
	Ident []bool ` + "`json:\"ident,omitempty\"`" + `
	Lit   []bool ` + "`json:\"lit,omitempty\"`" + `
	Conv  []bool ` + "`json:\"conv,omitempty\"`" + `
	NameM []bool ` + "`json:\"namem,omitempty\"`" + `
}

func handle(r *req) (out resp) {
	defer func() {
		if e := recover(); e != nil {
			out = resp{Err: fmt.Sprintf("panic: %v", e)}
		}
	}()
	switch r.Kind {
	case "pm":
		m, err := option.NewPatternMatcher(r.Text, r.Init)
		if err != nil {
			return resp{Err: "compile: " + err.Error()}
		}
		for _, q := range r.Q {
			out.Ans = append(out.Ans, m.Match(q.S, q.C))
		}
	case "opts":
		opts := option.NewOptions()
		for _, n := range r.Notes {
			switch n.K {
			case "case":
				opts.ExactCase = true
			case "caseoff":
				opts.ExactCase = false
			case "skip":
				m, err := option.NewPatternMatcher(n.Text, opts.ExactCase)
				if err != nil {
					return resp{Err: "compile: " + err.Error()}
				}
				opts.SkipFields = append(opts.SkipFields, m)
			}
		}
		for _, s := range r.Skip {
			out.Skip = append(out.Skip, opts.ShouldSkip(s))
		}
		for _, ab := range r.Names {
			out.Cmp = append(out.Cmp, opts.CompareFieldName(ab[0], ab[1]))
			out.Ident = append(out.Ident, option.NewIdentMatcher(ab[0]).Match(ab[1], opts.ExactCase))
			out.Lit = append(out.Lit, option.NewLiteralSetter(ab[0], "0", 0).Match(ab[1], opts.ExactCase))
			out.Conv = append(out.Conv, option.NewFieldConverter("f", ab[0], ab[0], 0).Match(ab[1], ab[1]))
			out.NameM = append(out.NameM, option.NewNameMatcher(ab[0], ab[0], 0).Match(ab[1], ab[1], true))
		}
	default:
		out.Err = "unknown kind"
	}
	return
}

func main() {
	in, err := os.Open(os.Args[1])
	if err != nil {
		panic(err)
	}
	outf, err := os.Create(os.Args[2])
	if err != nil {
		panic(err)
	}
	w := bufio.NewWriterSize(outf, 1<<20)
	sc := bufio.NewScanner(in)
	sc.Buffer(make([]byte, 1<<20), 1<<24)
	enc := json.NewEncoder(w)
	for sc.Scan() {
		var r req
		if err := json.Unmarshal(sc.Bytes(), &r); err != nil {
			panic(err)
		}
		o := handle(&r)
		if err := enc.Encode(&o); err != nil {
			panic(err)
		}
	}
	w.Flush()
	outf.Close()
}
`

// C19 runs the matcher check.
func C19(c *core.Ctx) {
	if c.Replay != "" {
		replayUnsupported(c)
	}
	c.Ev.Level = "model_checking"
	table, err := chartab.Table()
	if err != nil {
		core.Machinery("chartab: %v", err)
	}
	extra := map[string]string{"CharTable.tla": table}

	// 0. vacuity check of the model-level invariant: the stale-cache variant of
	// the specification must violate HistoryFree.
	stale := core.RunTLC(c.Scratch, core.TLCRun{Module: "MCMatcher", Config: "MCMatcherStale.cfg", Extra: extra, Workers: 4})
	if stale.OK || !strings.Contains(stale.Violated, "HistoryFree") {
		core.Machinery("vacuity check failed: SpecStale should violate HistoryFree, got OK=%v %q\n%s", stale.OK, stale.Violated, stale.Tail)
	}

	// 1. TLC: single-query matrix, query sequences, options machine.
	var cases []mCase
	var ocases []oCase
	collect := func(tag, js string) {
		switch tag {
		case "Q":
			var m mCase
			if err := json.Unmarshal([]byte(js), &m); err != nil {
				core.Machinery("bad Q line: %v: %s", err, js)
			}
			cases = append(cases, m)
		case "O":
			var o oCase
			if err := json.Unmarshal([]byte(js), &o); err != nil {
				core.Machinery("bad O line: %v: %s", err, js)
			}
			ocases = append(ocases, o)
		}
	}
	single := "MCMatcherSingleQ.cfg"
	if c.Thorough() {
		single = "MCMatcherSingleT.cfg"
	}
	// TLC workers print concurrently; serialise the callback with 1 reader (RunTLC reads
	// one stream sequentially, so collect is not called concurrently).
	r1 := core.MustTLC(c.Scratch, core.TLCRun{Module: "MCMatcher", Config: single, Extra: extra, Tags: []string{"Q"}, OnLine: collect, Workers: 12, Timeout: minutes(40), HeapGB: 12})
	c.AddTLC(r1)
	nSingle := len(cases)
	r2 := core.MustTLC(c.Scratch, core.TLCRun{Module: "MCMatcher", Config: "MCMatcherSeq.cfg", Extra: extra, Tags: []string{"Q"}, OnLine: collect, Workers: 12, Timeout: minutes(20)})
	c.AddTLC(r2)
	r3 := core.MustTLC(c.Scratch, core.TLCRun{Module: "MCSkipOptions", Config: "MCSkipOptions.cfg", Extra: extra, Tags: []string{"O"}, OnLine: collect, Workers: 8, Timeout: minutes(20)})
	c.AddTLC(r3)
	if nSingle == 0 || len(cases) == nSingle || len(ocases) == 0 {
		core.Machinery("TLC emitted no cases (single=%d seq=%d opts=%d)", nSingle, len(cases)-nSingle, len(ocases))
	}
	c.Set("tlc_single_queries", nSingle)
	c.Set("tlc_query_sequences", len(cases)-nSingle)
	c.Set("tlc_option_behaviours", len(ocases))

	// 2. oracle self-check: the specification's Ref against the standard library.
	selfCheck := 0
	for i := range cases {
		m := &cases[i]
		for _, q := range m.Hist {
			if std := m.Pat.StdAnswer(chartab.Str(q.S), q.C); std != q.Ans {
				core.Machinery("oracle self-check: spec and standard library disagree on %s vs %q exact=%v: spec=%v std=%v",
					m.Pat.Text(), chartab.Str(q.S), q.C, q.Ans, std)
			}
			selfCheck++
		}
	}
	for i := range ocases {
		o := &ocases[i]
		var pats []*chartab.Pat
		for k := range o.Notes {
			if o.Notes[k].K == "skip" {
				pats = append(pats, &o.Notes[k].P)
			}
		}
		for _, a := range o.Answers.Skip {
			std := false
			for _, p := range pats {
				std = std || p.StdAnswer(chartab.Str(a.S), o.Exact)
			}
			if std != a.Ans {
				core.Machinery("oracle self-check (options): disagree on %q exact=%v", chartab.Str(a.S), o.Exact)
			}
			selfCheck++
		}
		for _, n := range o.Answers.Name {
			a, b := chartab.Str(n.A), chartab.Str(n.B)
			std := a == b
			if !o.Exact {
				std = strings.EqualFold(a, b)
			}
			if std != n.Ans || (a == b) != n.Eq {
				core.Machinery("oracle self-check (names): disagree on %q %q exact=%v", a, b, o.Exact)
			}
			selfCheck++
		}
	}
	c.Set("oracle_selfcheck_agreements", selfCheck)

	// 3. B4: replay on the real objects.
	bin := core.BuildAgainstRepo(c.Scratch, "mdrv", map[string]string{"main.go": matcherDriverSrc})
	reqPath := filepath.Join(c.Scratch, "mreq.ndjson")
	respPath := filepath.Join(c.Scratch, "mresp.ndjson")
	rf, _ := os.Create(reqPath)
	bw := bufio.NewWriterSize(rf, 1<<20)
	enc := json.NewEncoder(bw)
	for i := range cases {
		m := &cases[i]
		rq := drvReq{Kind: "pm", Text: m.Pat.Text(), Init: m.Init}
		for _, q := range m.Hist {
			rq.Q = append(rq.Q, drvQuery{S: chartab.Str(q.S), C: q.C})
		}
		_ = enc.Encode(&rq)
	}
	for i := range ocases {
		o := &ocases[i]
		rq := drvReq{Kind: "opts"}
		for _, n := range o.Notes {
			dn := drvNote{K: n.K}
			if n.K == "skip" {
				dn.Text = n.P.Text()
			}
			rq.Notes = append(rq.Notes, dn)
		}
		for _, a := range o.Answers.Skip {
			rq.Skip = append(rq.Skip, chartab.Str(a.S))
		}
		for _, n := range o.Answers.Name {
			rq.Names = append(rq.Names, [2]string{chartab.Str(n.A), chartab.Str(n.B)})
		}
		_ = enc.Encode(&rq)
	}
	bw.Flush()
	rf.Close()
	_, se, code := core.RunCmd(c.Scratch, core.GoEnv(), bin, reqPath, respPath)
	if code != 0 {
		core.Machinery("matcher driver failed: %s", se)
	}
	resps := readResps(respPath)
	if len(resps) != len(cases)+len(ocases) {
		core.Machinery("matcher driver answered %d of %d requests", len(resps), len(cases)+len(ocases))
	}
	bound := 0
	type agg struct {
		count  int
		first  string
		caseJS []byte
	}
	mism := map[string]*agg{}
	note := func(key, what string, cs any) {
		a := mism[key]
		if a == nil {
			b, _ := json.Marshal(cs)
			a = &agg{first: what, caseJS: b}
			mism[key] = a
		}
		a.count++
	}
	for i := range cases {
		m := &cases[i]
		rp := resps[i]
		bound++
		text := m.Pat.Text()
		if rp.Err != "" {
			note("err|"+text, fmt.Sprintf("pattern %s: %s", text, rp.Err), m)
			continue
		}
		differs := false
		for k, q := range m.Hist {
			if k >= len(rp.Ans) || rp.Ans[k] != q.Ans {
				got := "missing"
				if k < len(rp.Ans) {
					got = fmt.Sprint(rp.Ans[k])
				}
				prev := "compiled for exact=" + fmt.Sprint(m.Init)
				if k > 0 {
					prev = "previous query exact=" + fmt.Sprint(m.Hist[k-1].C)
				}
				note(fmt.Sprintf("pm|%s|%v", text, q.C),
					fmt.Sprintf("PatternMatcher(%s).Match(%q, exact=%v) = %s, specification requires %v (%s)", text, chartab.Str(q.S), q.C, got, q.Ans, prev), m)
				break
			}
			// non-trivial: the two case rules answer differently, or the matcher was compiled for the other rule
			if m.Pat.StdAnswer(chartab.Str(q.S), !q.C) != q.Ans {
				differs = true
			}
			if (k == 0 && m.Init != q.C) || (k > 0 && m.Hist[k-1].C != q.C) {
				differs = true
			}
		}
		if differs {
			c.Nontrivial(fmt.Sprintf("%s|%v|%d", text, m.Init, i))
		}
	}
	for j := range ocases {
		o := &ocases[j]
		rp := resps[len(cases)+j]
		bound++
		desc := describeNotes(o.Notes)
		if rp.Err != "" {
			note("oerr|"+desc, fmt.Sprintf("options %s: %s", desc, rp.Err), o)
			continue
		}
		for k, a := range o.Answers.Skip {
			if k >= len(rp.Skip) || rp.Skip[k] != a.Ans {
				note("skip|"+desc, fmt.Sprintf("notations [%s]: ShouldSkip(%q) differs from the specification's %v", desc, chartab.Str(a.S), a.Ans), o)
				break
			}
		}
		for k, n := range o.Answers.Name {
			a, b := chartab.Str(n.A), chartab.Str(n.B)
			if rp.Cmp[k] != n.Ans {
				note("cmp|"+a+"|"+b+fmt.Sprint(o.Exact), fmt.Sprintf("CompareFieldName(%q,%q) exact=%v = %v, specification requires %v", a, b, o.Exact, rp.Cmp[k], n.Ans), o)
			}
			if rp.Ident[k] != n.Ans {
				note("ident|"+a+"|"+b+fmt.Sprint(o.Exact), fmt.Sprintf("IdentMatcher(%q).Match(%q, exact=%v) = %v, specification requires %v", a, b, o.Exact, rp.Ident[k], n.Ans), o)
			}
			if rp.Lit[k] != n.Ans {
				note("lit|"+a+"|"+b+fmt.Sprint(o.Exact), fmt.Sprintf("LiteralSetter(%q).Match(%q, exact=%v) = %v, specification requires %v", a, b, o.Exact, rp.Lit[k], n.Ans), o)
			}
			if rp.Conv[k] != n.Eq {
				note("conv|"+a+"|"+b, fmt.Sprintf("FieldConverter(%q).Match(%q) = %v, :conv paths compare case-sensitively: %v required", a, b, rp.Conv[k], n.Eq), o)
			}
			if rp.NameM[k] != n.Eq {
				note("namem|"+a+"|"+b, fmt.Sprintf("NameMatcher(%q).Match(%q, exact) = %v, :map paths compare case-sensitively: %v required", a, b, rp.NameM[k], n.Eq), o)
			}
		}
		if len(o.Notes) > 1 {
			c.Nontrivial("opts|" + desc)
		}
	}

	// 4. end to end: the option behaviours through the command line.
	e2eBound, e2eMism := c19EndToEnd(c, ocases)
	bound += e2eBound
	for k, v := range e2eMism {
		mism[k] = &agg{count: 1, first: v.what, caseJS: v.caseJS}
	}

	c.AddCount("traces_validated_against_impl", int64(bound))
	c.AddCount("evaluations", int64(bound))
	c.Set("rule", "single queries: every (pattern, initial rule, path, rule) of the bounded alphabets; sequences: 3 queries alternating the rule; case-variant paths: programs of MCMatching whose :skip / :map / :conv / :literal names a lower-cased variant of a member path, under both case rules, end to end; option behaviours: notation orders of :case/:case:off/:skip replayed on option.Options and through the CLI. Non-trivial: the two case rules answer differently, or the matcher was compiled for / last asked with the other rule")
	c.Set("exhaustive", true)
	if len(cases) > 0 {
		c.Sample(map[string]any{"pattern": cases[0].Pat.Text(), "init_exact": cases[0].Init, "queries": cases[0].Hist})
		k := nSingle
		c.Sample(map[string]any{"pattern": cases[k].Pat.Text(), "init_exact": cases[k].Init, "queries": cases[k].Hist})
	}
	if len(ocases) > 0 {
		c.Sample(map[string]any{"notations": describeNotes(ocases[len(ocases)/2].Notes), "final_exact": ocases[len(ocases)/2].Exact})
	}

	// 4b. end to end through the struct walk: notations whose path is a case variant of a real member path
	// (`:skip a`, `:map A2 a`, `:conv f A2 n.x`, `:literal a 7`) under both case rules - a plain :skip
	// pattern follows the case rule, :map / :conv / :literal paths never do (Matching.tla ShouldSkip, ExplicitAt).
	_, wc := mCases(c, 1, func(m *wCase) bool {
		for _, n := range m.Prog.Notes {
			p := strings.Join(n.Dst, ".")
			if n.Pk != "prefix" && n.Pk != "suffix" && p != "" && p != "Nowhere" && strings.ToLower(p) == p {
				return true
			}
		}
		return false
	})
	st := b1.Run(c, mOptions("m19", false), wc, mJudge(func(v *mVerdicts, m *wCase) ([]string, string) {
		var p []string
		if v.failed != "" {
			p = append(p, v.failed)
		}
		p = append(p, v.explicit...)
		p = append(p, v.defaults...)
		return p, mDescribe(m)
	}))
	c.Set("case_variant_path_programs", st.Cases)
	if st.Cases < 20 {
		core.Machinery("C19: only %d programs with case-variant notation paths", st.Cases)
	}

	// 5. verdicts. One replay file per distinct (pattern, rule) class.
	keys := make([]string, 0, len(mism))
	for k := range mism {
		keys = append(keys, k)
	}
	sort.Strings(keys)
	c.Set("distinct_mismatch_classes", len(keys))
	for _, k := range keys {
		a := mism[k]
		id := core.HashID(k)
		p := c.WriteReplay(id, &core.ReplayFile{Family: "matcher", Case: a.caseJS, Diff: a.first})
		c.Report("", fmt.Sprintf("%s [%d queries in this class]", a.first, a.count), p)
	}
}

func describeNotes(ns []oNote) string {
	var parts []string
	for _, n := range ns {
		switch n.K {
		case "skip":
			parts = append(parts, ":skip "+n.P.Text())
		case "case":
			parts = append(parts, ":case")
		case "caseoff":
			parts = append(parts, ":case:off")
		}
	}
	return strings.Join(parts, "; ")
}

func readResps(path string) []drvResp {
	f, err := os.Open(path)
	if err != nil {
		core.Machinery("open %s: %v", path, err)
	}
	defer f.Close()
	var out []drvResp
	sc := bufio.NewScanner(f)
	sc.Buffer(make([]byte, 1<<20), 1<<24)
	for sc.Scan() {
		var r drvResp
		if err := json.Unmarshal(sc.Bytes(), &r); err != nil {
			core.Machinery("bad driver response: %v", err)
		}
		out = append(out, r)
	}
	return out
}

type e2eMismatch struct {
	what   string
	caseJS []byte
}

var reSkipLine = regexp.MustCompile(`(?m)^\s*// skip: dst\.(\S+)\s*$`)

// c19EndToEnd turns every option behaviour into one interface method whose
// doc comment holds the notations in order and whose destination struct has
// one field (or nested struct member) per queried path, runs the tool, and
// compares the "// skip:" lines of each generated function with the answers.
func c19EndToEnd(c *core.Ctx, ocases []oCase) (int, map[string]e2eMismatch) {
	tool := c.EnsureTool()
	mism := map[string]e2eMismatch{}
	if len(ocases) == 0 {
		return 0, mism
	}
	// the path set is the same for all behaviours of one model
	var paths [][]string
	for _, a := range ocases[0].Answers.Skip {
		paths = append(paths, a.S)
	}
	// the tool asks about every enclosing struct as well: the path set must be prefix-closed
	have := map[string]bool{}
	for _, p := range paths {
		have[chartab.Str(p)] = true
	}
	for p := range have {
		for i := 0; i < len(p); i++ {
			if p[i] == '.' && !have[p[:i]] {
				core.Machinery("MCSkipOptions.MCPaths is not prefix-closed: %q lacks %q", p, p[:i])
			}
		}
	}
	srcFields, dstFields, srcTypes, dstTypes := pathStructs(paths)
	const perFile = 60
	nFiles := (len(ocases) + perFile - 1) / perFile
	mod := core.NewModule(filepath.Join(c.Scratch, "c19e2e"), "c19e2e")
	type job struct {
		dir   string
		cases []int
	}
	jobs := make([]job, nFiles)
	for f := 0; f < nFiles; f++ {
		var sb strings.Builder
		sb.WriteString("//go:build convergen\n\npackage p\n\n")
		var ifc strings.Builder
		ifc.WriteString("type Convergen interface {\n")
		j := job{dir: filepath.Join(mod.Root, fmt.Sprintf("p%03d", f))}
		for k := f * perFile; k < (f+1)*perFile && k < len(ocases); k++ {
			j.cases = append(j.cases, k)
			o := &ocases[k]
			fmt.Fprintf(&sb, "type S%d struct {\n%s}\n\ntype D%d struct {\n%s}\n\n", k, strings.ReplaceAll(srcFields, "#", fmt.Sprint(k)), k, strings.ReplaceAll(dstFields, "#", fmt.Sprint(k)))
			sb.WriteString(strings.ReplaceAll(srcTypes, "#", fmt.Sprint(k)))
			sb.WriteString(strings.ReplaceAll(dstTypes, "#", fmt.Sprint(k)))
			for _, n := range o.Notes {
				switch n.K {
				case "case":
					ifc.WriteString("\t// :case\n")
				case "caseoff":
					ifc.WriteString("\t// :case:off\n")
				case "skip":
					ifc.WriteString("\t// :skip " + n.P.Text() + "\n")
				}
			}
			fmt.Fprintf(&ifc, "\tM%d(*S%d) *D%d\n", k, k, k)
		}
		ifc.WriteString("}\n")
		sb.WriteString(ifc.String())
		_ = os.MkdirAll(j.dir, 0o755)
		_ = os.WriteFile(filepath.Join(j.dir, "setup.go"), []byte(sb.String()), 0o644)
		jobs[f] = j
	}
	if out, ok := mod.GoVet("convergen", "./..."); !ok {
		core.Machinery("C19 end-to-end inputs do not type-check (harness bug): %s", out)
	}
	results := make([]*core.RunResult, nFiles)
	core.ParallelFor(nFiles, func(i int) {
		results[i] = tool.Run(core.RunOpts{Dir: jobs[i].dir, Args: []string{"setup.go"}})
	})
	bound := 0
	judge := func(o *oCase, body string, ok bool, failure string) (string, bool) {
		if !ok {
			return failure, false
		}
		got := map[string]bool{}
		for _, m := range reSkipLine.FindAllStringSubmatch(body, -1) {
			got[m[1]] = true
		}
		want := map[string]bool{}
		skipped := map[string]bool{}
		for _, a := range o.Answers.Skip {
			if a.Ans {
				skipped[chartab.Str(a.S)] = true
			}
		}
		for p := range skipped {
			covered := false
			for i := 0; i < len(p); i++ {
				if p[i] == '.' && skipped[p[:i]] {
					covered = true
				}
			}
			if !covered {
				want[p] = true
			}
		}
		var diff []string
		for p := range want {
			if !got[p] {
				diff = append(diff, "missing skip of "+p)
			}
		}
		for p := range got {
			if !want[p] {
				diff = append(diff, "unexpected skip of "+p)
			}
		}
		sort.Strings(diff)
		if len(diff) > 0 {
			return strings.Join(diff, ", "), false
		}
		return "", true
	}
	for f := range jobs {
		res := results[f]
		var bodies map[string]string
		failure := ""
		if res.Exit == 0 && !res.TimedOut {
			b, err := os.ReadFile(filepath.Join(jobs[f].dir, "setup.gen.go"))
			if err != nil {
				failure = "exit 0 but no output file"
			} else {
				bodies = splitFuncs(string(b))
			}
		} else {
			failure = fmt.Sprintf("tool exit %d: %s", res.Exit, firstLine(res.Stderr))
		}
		for _, k := range jobs[f].cases {
			o := &ocases[k]
			bound++
			body, has := bodies[fmt.Sprintf("M%d", k)]
			what, ok := judge(o, body, failure == "" && has, failure)
			if ok {
				continue
			}
			// confirm in isolation: this behaviour alone in its own package
			iso := filepath.Join(mod.Root, fmt.Sprintf("iso%d", k))
			_ = os.MkdirAll(iso, 0o755)
			var sb strings.Builder
			sb.WriteString("//go:build convergen\n\npackage p\n\n")
			fmt.Fprintf(&sb, "type S%d struct {\n%s}\n\ntype D%d struct {\n%s}\n\n", k, strings.ReplaceAll(srcFields, "#", fmt.Sprint(k)), k, strings.ReplaceAll(dstFields, "#", fmt.Sprint(k)))
			sb.WriteString(strings.ReplaceAll(srcTypes, "#", fmt.Sprint(k)))
			sb.WriteString(strings.ReplaceAll(dstTypes, "#", fmt.Sprint(k)))
			sb.WriteString("type Convergen interface {\n")
			for _, n := range o.Notes {
				switch n.K {
				case "case":
					sb.WriteString("\t// :case\n")
				case "caseoff":
					sb.WriteString("\t// :case:off\n")
				case "skip":
					sb.WriteString("\t// :skip " + n.P.Text() + "\n")
				}
			}
			fmt.Fprintf(&sb, "\tM%d(*S%d) *D%d\n}\n", k, k, k)
			_ = os.WriteFile(filepath.Join(iso, "setup.go"), []byte(sb.String()), 0o644)
			r := tool.Run(core.RunOpts{Dir: iso, Args: []string{"setup.go"}})
			isoFailure := ""
			var isoBodies map[string]string
			if r.Exit == 0 && !r.TimedOut {
				b, err := os.ReadFile(filepath.Join(iso, "setup.gen.go"))
				if err != nil {
					isoFailure = "exit 0 but no output file"
				} else {
					isoBodies = splitFuncs(string(b))
				}
			} else {
				isoFailure = fmt.Sprintf("tool exit %d: %s", r.Exit, firstLine(r.Stderr))
			}
			body2, has2 := isoBodies[fmt.Sprintf("M%d", k)]
			what2, ok2 := judge(o, body2, isoFailure == "" && has2, isoFailure)
			if ok2 {
				continue // did not reproduce in isolation: not reported under C19
			}
			_ = what
			cj, _ := json.Marshal(o)
			mism["e2e|"+describeNotes(o.Notes)] = e2eMismatch{
				what:   fmt.Sprintf("end to end, notations [%s]: %s", describeNotes(o.Notes), what2),
				caseJS: cj,
			}
		}
	}
	c.Set("end_to_end_behaviours", bound)
	return bound, mism
}

// pathStructs builds the field lists of a source/destination struct pair in
// which every queried path exists. '#' stands for the case number. Nested
// structs get distinct named types on the two sides so that they are copied
// member by member.
func pathStructs(paths [][]string) (srcFields, dstFields, srcTypes, dstTypes string) {
	type nodeT struct {
		name string
		kids []*nodeT
	}
	root := &nodeT{}
	find := func(n *nodeT, name string) *nodeT {
		for _, k := range n.kids {
			if k.name == name {
				return k
			}
		}
		k := &nodeT{name: name}
		n.kids = append(n.kids, k)
		return k
	}
	for _, p := range paths {
		segs := strings.Split(chartab.Str(p), ".")
		n := root
		for _, s := range segs {
			if s == "" {
				continue
			}
			n = find(n, s)
		}
	}
	var sf, df, st, dt strings.Builder
	tcount := 0
	var emit func(n *nodeT, sfw, dfw *strings.Builder)
	emit = func(n *nodeT, sfw, dfw *strings.Builder) {
		for _, k := range n.kids {
			if len(k.kids) == 0 {
				fmt.Fprintf(sfw, "\t%s int\n", k.name)
				fmt.Fprintf(dfw, "\t%s int\n", k.name)
				continue
			}
			tcount++
			sn := fmt.Sprintf("SN#x%d", tcount)
			dn := fmt.Sprintf("DN#x%d", tcount)
			fmt.Fprintf(sfw, "\t%s %s\n", k.name, sn)
			fmt.Fprintf(dfw, "\t%s %s\n", k.name, dn)
			var s2, d2 strings.Builder
			emit(k, &s2, &d2)
			fmt.Fprintf(&st, "type %s struct {\n%s}\n\n", sn, s2.String())
			fmt.Fprintf(&dt, "type %s struct {\n%s}\n\n", dn, d2.String())
		}
	}
	emit(root, &sf, &df)
	return sf.String(), df.String(), st.String(), dt.String()
}

var reFuncStart = regexp.MustCompile(`(?m)^func (?:\([^)]*\) )?(\w+)\(`)

// splitFuncs cuts a generated file into function texts by name (text-level;
// used only where comments inside bodies are what is compared).
func splitFuncs(src string) map[string]string {
	out := map[string]string{}
	idx := reFuncStart.FindAllStringSubmatchIndex(src, -1)
	for i, m := range idx {
		end := len(src)
		if i+1 < len(idx) {
			end = idx[i+1][0]
		}
		out[src[m[2]:m[3]]] = src[m[0]:end]
	}
	return out
}

func firstLine(s string) string {
	s = strings.TrimSpace(s)
	if i := strings.IndexByte(s, '\n'); i >= 0 {
		return s[:i]
	}
	return s
}
