package checks

import (
	"encoding/json"
	"fmt"
	"os"
	"path/filepath"
	"sort"
	"strings"
	"sync"

	"verif/internal/core"
	"verif/internal/project"
)

// ---- C09: spec/Options.tla ----

type optNote struct {
	S string `json:"s"`
	V string `json:"v"`
}
type optCase struct {
	Cfg struct {
		Focus string            `json:"focus"`
		Place map[string]string `json:"place"`
		Bg    string            `json:"bg"`
		Dup   bool              `json:"dup"`
	} `json:"cfg"`
	Notes map[string][]optNote         `json:"notes"`
	Eff   map[string]map[string]string `json:"eff"`
}

func optNotation(n optNote) string {
	on := n.V == "on"
	switch n.S {
	case "style":
		if on {
			return ":style arg"
		}
		return ":style return"
	case "match":
		if on {
			return ":match name"
		}
		return ":match none"
	}
	if on {
		return ":" + n.S
	}
	return ":" + n.S + ":off"
}

const c09Probe = `package p

type StrOnly struct{ V int }

func (s StrOnly) String() string { return "s" }

type NP struct {
	X int
	Y int
}

type PS struct {
	Nst       NP
	Nst2      NP
	Plain     int
	Caseprobe int
	gxBacking int
	Sx        StrOnly
	Tx        int
	SkA1      int
	SkA2      int
	SkB1      int
	CiSk      int
}

func (s *PS) Gx() int { return s.gxBacking }

func CvProbe(i int) int { return i }

// declared here, in a file that is not the setup file, and embedded by interface B there
type EmbB interface {
	B2(*PS) *PD
}

func PostProbe(dst *PD, src *PS) {}

type PD struct {
	Nst       NP
	Nst2      NP
	Plain     int
	CaseProbe int
	Gx        int
	Sx        string
	Tx        int64
	SkA1      int
	SkA2      int
	SkB1      int
	CiSk      int
	LtA       int
	LtA2      int
	MpA2      int
	MpA       int
	CvA       int
	LtB       int
}
`

func c09Lines(prefix string, ns []optNote) string {
	var sb strings.Builder
	for _, n := range ns {
		sb.WriteString(prefix + "// " + optNotation(n) + "\n")
	}
	return sb.String()
}

// c09Setup renders a setup file with the given methods (subset of A1 A2 B1).
func c09Setup(o *optCase, methods []string, bFirst bool) string {
	has := map[string]bool{}
	for _, m := range methods {
		has[m] = true
	}
	var a, b strings.Builder
	if has["A1"] || has["A2"] {
		a.WriteString(c09Lines("", o.Notes["A"]))
		// list-valued notations have no meaning on an interface and are passed over there: three of a kind (a slice
		// with spare capacity, should they ever be kept) must not connect the methods' own lists with each other
		// five skip lines leave room for three more in a slice grown by appending (capacity 8): exactly the number of
		// skip lines each of the two methods has of its own
		a.WriteString("// :skip ZzNone1\n// :skip ZzNone2\n// :skip ZzNone3\n// :skip ZzNone4\n// :skip ZzNone5\n")
		a.WriteString("// :literal ZzNone1 1\n// :literal ZzNone2 2\n// :literal ZzNone3 3\n// :map Plain ZzNone1\n// :map Plain ZzNone2\n// :map Plain ZzNone3\n")
		a.WriteString("type Convergen interface {\n")
		for _, m := range []string{"A1", "A2"} {
			if has[m] {
				// a skip pattern that matches its field under case folding only, ABOVE the method's own toggles:
				// the case rule that ends up in force decides, wherever the :skip line stands
				fmt.Fprintf(&a, "\t// :skip Sk%s\n", m)
				a.WriteString("\t// :skip cisk\n")
				a.WriteString(c09Lines("\t", o.Notes[m]))
				if m == "A1" {
					// list-valued and hook notations of A1 only: they must not reach A2 or B1
					a.WriteString("\t// :literal LtA 11\n\t// :map Plain MpA\n\t// :conv CvProbe Plain CvA\n\t// :postprocess PostProbe\n")
					// a notation below a struct that is otherwise copied as a whole: A1 on Nst, A2 on Nst2
					a.WriteString("\t// :skip Nst.X\n")
				}
				if m == "A2" {
					a.WriteString("\t// :skip Nst2.X\n")
					// exactly one literal and one map of its own, like A1
					a.WriteString("\t// :literal LtA2 7\n\t// :map Plain MpA2\n")
				}
				fmt.Fprintf(&a, "\t%s(*PS) *PD\n", m)
			}
		}
		a.WriteString("}\n\n")
	}
	if has["B1"] {
		b.WriteString("// :convergen\n")
		b.WriteString(c09Lines("", o.Notes["B"]))
		b.WriteString("// :skip ZzNone1\n// :skip ZzNone2\n// :skip ZzNone3\n")
		b.WriteString("type B interface {\n")
		b.WriteString("\t// :skip SkB1\n\t// :skip cisk\n")
		b.WriteString(c09Lines("\t", o.Notes["B1"]))
		b.WriteString("\t// :literal LtB 5\n\tB1(*PS) *PD\n")
		if has["B2"] {
			// B2 is promoted from an interface of a sibling file: no notations of its own, B's settings apply
			b.WriteString("\tEmbB\n")
		}
		b.WriteString("}\n\n")
	}
	head := "//go:build convergen\n\npackage p\n\n"
	if bFirst {
		return head + b.String() + a.String()
	}
	return head + a.String() + b.String()
}

// c09Observe reads the effective settings off a generated function of the probe pair.
func c09Observe(fn *project.Func, method string, want map[string]string) (diffs []string) {
	style := "off"
	if len(fn.Params) > 0 && fn.Params[0].Type == "*PD" {
		style = "on"
	}
	hasDstResult := false
	for _, r := range fn.Results {
		if r.Type != "error" {
			hasDstResult = true
		}
	}
	if style == "on" && hasDstResult {
		diffs = append(diffs, "header is neither return style nor arg style")
	}
	if style != want["style"] {
		diffs = append(diffs, fmt.Sprintf("style: effective %s, required %s", map[string]string{"on": "arg", "off": "return"}[style], map[string]string{"on": "arg", "off": "return"}[want["style"]]))
		return
	}
	kind := func(path string) (outcome, string) { return fieldOutcome(fn, path) }
	sees := func(path, onKind, onTerm string) string {
		o, anomaly := kind(path)
		if anomaly != "" {
			return "?" + anomaly
		}
		switch {
		case o.K == "nomatch":
			return "off"
		case o.K == onKind && normTerm(o.T) == normTerm(onTerm):
			return "on"
		}
		return "?unexpected " + fmtAllowed([]outcome{o})
	}
	match := sees("DST.Plain", "assign", "SRC.Plain")
	if match != want["match"] {
		names := map[string]string{"on": "name", "off": "none"}
		eff, ok := names[match]
		if !ok {
			eff = match
		}
		diffs = append(diffs, fmt.Sprintf("match: effective %s, required %s (dst.Plain)", eff, names[want["match"]]))
	}
	probes := []struct{ setting, path, kind, term string }{
		{"case", "DST.CaseProbe", "assign", "SRC.Caseprobe"},
		{"getter", "DST.Gx", "assign", "SRC.Gx()"},
		{"stringer", "DST.Sx", "str", "SRC.Sx.String()"},
		{"typecast", "DST.Tx", "cast", "cast[int64](SRC.Tx)"},
	}
	for _, p := range probes {
		got := sees(p.path, p.kind, p.term)
		if want["match"] == "off" {
			// :match none: nothing is matched by name, whatever the other settings are
			if got != "off" {
				diffs = append(diffs, fmt.Sprintf("%s is matched although :match none is in force", strings.ToLower(strings.TrimPrefix(p.path, "DST."))))
			}
			continue
		}
		w := want[p.setting]
		if p.setting == "case" {
			// the probe is assigned iff the case rule is OFF
			w = map[string]string{"on": "off", "off": "on"}[w]
		}
		if got != w {
			eff := got
			if p.setting == "case" && (got == "on" || got == "off") {
				eff = map[string]string{"on": "off", "off": "on"}[got]
			}
			diffs = append(diffs, fmt.Sprintf("%s: effective %s, required %s", p.setting, eff, want[p.setting]))
		}
	}
	// the case-folding skip pattern follows the effective case rule, although its line stands above the toggles
	if o, _ := kind("DST.CiSk"); true {
		wantK := "skip"
		if want["case"] == "on" || method == "B2" {
			wantK = map[string]string{"on": "assign", "off": "nomatch"}[want["match"]]
		}
		if o.K != wantK {
			diffs = append(diffs, fmt.Sprintf("`:skip cisk` above the method's toggles: dst.CiSk is %s, with the effective case rule %s it must be %s", o.K, want["case"], wantK))
		}
	}
	// list-valued and hook notations belong to the method that carries them
	own := map[string]string{"LtA": "A1", "MpA": "A1", "CvA": "A1", "LtB": "B1", "LtA2": "A2", "MpA2": "A2"}
	for f, m := range own {
		o, _ := kind("DST." + f)
		if m != method && o.K != "nomatch" {
			diffs = append(diffs, fmt.Sprintf("a notation of method %s on field %s leaked into %s (%s)", m, f, method, o.K))
		}
		if m == method && o.K == "nomatch" {
			diffs = append(diffs, fmt.Sprintf("the method's own notation on field %s is not honoured", f))
		}
	}
	// nested notations: member-wise copy exactly where this method addresses a member, whole copy elsewhere
	for f, m := range map[string]string{"Nst": "A1", "Nst2": "A2"} {
		if want["match"] == "off" {
			continue
		}
		whole, _ := kind("DST." + f)
		sub, _ := kind("DST." + f + ".X")
		if m == method {
			if sub.K != "skip" {
				diffs = append(diffs, fmt.Sprintf("the method's own `:skip %s.X` is not honoured (%s)", f, sub.K))
			}
		} else if whole.K != "assign" {
			diffs = append(diffs, fmt.Sprintf("dst.%s is not copied as a whole (%s) although only method %s has a notation below it", f, whole.K, m))
		}
	}
	hooks := 0
	for _, st := range fn.Body {
		if st.Kind == "hook" {
			hooks++
		}
	}
	if (method == "A1") != (hooks == 1) {
		diffs = append(diffs, fmt.Sprintf("%d hook call(s) in %s; the :postprocess notation belongs to A1 only", hooks, method))
	}
	// list notations: exactly this method's own :skip
	for _, m := range []string{"A1", "A2", "B1"} {
		o, _ := kind("DST.Sk" + m)
		if m == method {
			if o.K != "skip" {
				diffs = append(diffs, fmt.Sprintf("the method's own `:skip Sk%s` is not honoured (%s)", m, o.K))
			}
		} else if o.K == "skip" {
			diffs = append(diffs, fmt.Sprintf("`:skip Sk%s` of method %s leaked into %s", m, m, method))
		}
	}
	return
}

// C09 runs the scoping check.
func C09(c *core.Ctx) {
	if c.Replay != "" {
		replayUnsupported(c)
	}
	// vacuity check of the model-level invariant: the aliasing variant must violate Scope
	al := core.RunTLC(c.Scratch, core.TLCRun{Module: "Options", Config: "MCOptionsAliased.cfg", Workers: 4})
	if al.OK || !strings.Contains(al.Violated, "Scope") {
		core.Machinery("vacuity check failed: SpecAliased should violate Scope (%v %q)", al.OK, al.Violated)
	}
	keep := 9
	if c.Thorough() {
		keep = 1
	}
	var cases []*optCase
	var raws []string
	total := 0
	res := core.MustTLC(c.Scratch, core.TLCRun{Module: "Options", Config: "MCOptions.cfg", Tags: []string{"CASE"}, Workers: 8, Timeout: minutes(10),
		OnLine: func(tag, js string) {
			total++
			var o optCase
			if err := json.Unmarshal([]byte(js), &o); err != nil {
				core.Machinery("bad CASE: %v: %s", err, js)
			}
			// fixed core: no background, no duplicates, interface-level value set, methods unset or overriding
			coreCase := o.Cfg.Bg == "none" && !o.Cfg.Dup && o.Cfg.Place["A"] != "unset" && o.Cfg.Place["B"] == "unset" && o.Cfg.Place["B1"] == "unset"
			if keep > 1 && !coreCase && hashMod(js, c.Seed, keep) != 0 {
				return
			}
			cases = append(cases, &o)
			raws = append(raws, js)
		}})
	c.AddTLC(res)
	c.Set("tlc_cases_total", total)
	tool := c.EnsureTool()
	root := filepath.Join(c.Scratch, "c09")
	mod := core.NewModule(root, "c09m")
	type run struct {
		dir     string
		methods []string
		res     *core.RunResult
		file    *project.File
		err     string
	}
	variants := [][]string{{"A1", "A2", "B1", "B2"}, {"A1"}, {"A2"}, {"B1"}}
	runs := make([][]*run, len(cases))
	files := map[string]string{}
	nBFirst := 0
	for i := range cases {
		if hashMod(raws[i], c.Seed+1, 2) == 0 {
			nBFirst++
		}
	}
	if len(cases) > 100 && (nBFirst == 0 || nBFirst == len(cases)) {
		core.Machinery("C09: the order of the two interfaces in the file does not vary (%d of %d)", nBFirst, len(cases))
	}
	for i, o := range cases {
		bFirst := hashMod(raws[i], c.Seed+1, 2) == 0
		for v, ms := range variants {
			d := fmt.Sprintf("c%05d_%d", i, v)
			runs[i] = append(runs[i], &run{dir: d, methods: ms})
			files[filepath.Join(d, "setup.go")] = c09Setup(o, ms, bFirst)
			files[filepath.Join(d, "probe.go")] = c09Probe
		}
	}
	if err := core.WriteFiles(root, files); err != nil {
		core.Machinery("write: %v", err)
	}
	if out, ok := mod.GoVet("convergen", "./..."); !ok {
		core.Machinery("C09 inputs do not type-check (harness bug): %s", out)
	}
	var flat []*run
	for i := range runs {
		flat = append(flat, runs[i]...)
	}
	core.ParallelFor(len(flat), func(k int) {
		r := flat[k]
		r.res = tool.Run(core.RunOpts{Dir: filepath.Join(root, r.dir), Args: []string{"setup.go"}})
		if r.res.Exit != 0 || r.res.TimedOut {
			r.err = fmt.Sprintf("the tool failed (exit %d): %s", r.res.Exit, firstLine(r.res.Stderr))
			return
		}
		b, err := os.ReadFile(filepath.Join(root, r.dir, "setup.gen.go"))
		if err != nil {
			r.err = "exit 0 but no output file"
			return
		}
		f, perr := project.Parse(b, nil)
		if perr != nil {
			r.err = "output does not parse: " + perr.Error()
			return
		}
		r.file = f
	})
	var mu sync.Mutex
	functions := 0
	type bad struct {
		i    int
		what string
	}
	var bads []bad
	core.ParallelFor(len(cases), func(i int) {
		o := cases[i]
		var problems []string
		styleOf := func(key string) string {
			if o.Eff[key]["style"] == "on" {
				return "arg"
			}
			return "return"
		}
		for _, r := range runs[i] {
			if r.file != nil {
				r.file.Project(styleOf)
			}
		}
		multi := runs[i][0]
		for v, m := range []string{"A1", "A2", "B1"} {
			single := runs[i][v+1]
			for _, rr := range []*run{multi, single} {
				where := "in the three-method file"
				if rr == single {
					where = "generated alone"
				}
				if rr.err != "" {
					problems = append(problems, fmt.Sprintf("%s %s: %s", m, where, rr.err))
					continue
				}
				fn := rr.file.Func(m)
				if fn == nil {
					problems = append(problems, fmt.Sprintf("%s %s: function missing", m, where))
					continue
				}
				for _, d := range c09Observe(fn, m, o.Eff[m]) {
					problems = append(problems, fmt.Sprintf("%s %s: %s", m, where, d))
				}
			}
			// non-interference: the function is the same as if the method were alone
			if multi.file != nil && single.file != nil {
				f1, f2 := multi.file.Func(m), single.file.Func(m)
				if f1 != nil && f2 != nil && f1.Text != f2.Text {
					problems = append(problems, fmt.Sprintf("%s: the function differs from the one generated when the method is alone", m))
				}
			}
		}
		// the promoted method: interface B's settings, nothing else
		if multi.err == "" {
			if fn := multi.file.Func("B2"); fn == nil {
				problems = append(problems, "B2 (promoted from the embedded interface of a sibling file): function missing")
			} else {
				for _, d := range c09Observe(fn, "B2", o.Eff["B2"]) {
					problems = append(problems, fmt.Sprintf("B2 (promoted from the embedded interface of a sibling file): %s", d))
				}
			}
		}
		mu.Lock()
		functions += 7
		nondefault := false
		for _, m := range []string{"A1", "A2", "B1", "B2"} {
			for s, v := range o.Eff[m] {
				if v != map[string]string{"style": "off", "match": "on", "case": "on", "getter": "off", "stringer": "off", "typecast": "off"}[s] {
					nondefault = true
				}
			}
		}
		if nondefault {
			c.Nontrivial(raws[i])
		}
		if len(problems) > 0 {
			bads = append(bads, bad{i, strings.Join(uniq(problems, 4), "; ")})
		}
		mu.Unlock()
	})
	sort.Slice(bads, func(a, b int) bool { return bads[a].i < bads[b].i })
	for _, b := range bads {
		o := cases[b.i]
		fl := map[string]string{"go.mod": "module c09m\n\ngo 1.19\n"}
		for _, r := range runs[b.i] {
			for _, fn := range []string{"setup.go", "probe.go", "setup.gen.go"} {
				if x, err := os.ReadFile(filepath.Join(root, r.dir, fn)); err == nil {
					fl[filepath.Join(r.dir, fn)] = string(x)
				}
			}
		}
		p := c.WriteReplay(core.HashID(raws[b.i]), &core.ReplayFile{Family: "options", Case: json.RawMessage(raws[b.i]), Files: fl, Command: []string{"convergen", "setup.go"}, Expected: o.Eff, Diff: b.what})
		place := fmt.Sprintf("A=%s A1=%s A2=%s B=%s B1=%s", o.Cfg.Place["A"], o.Cfg.Place["A1"], o.Cfg.Place["A2"], o.Cfg.Place["B"], o.Cfg.Place["B1"])
		c.Report("", fmt.Sprintf("setting %s placed %s (background %s, dup %v): %s", o.Cfg.Focus, place, o.Cfg.Bg, o.Cfg.Dup, b.what), p)
	}
	c.AddCount("traces_validated_against_impl", int64(functions))
	c.AddCount("evaluations", int64(functions))
	c.AddCount("tool_runs", int64(len(flat)))
	c.Set("cases_bound", len(cases))
	c.Set("exhaustive", c.Thorough())
	if len(cases) > 0 {
		j := len(cases) / 2
		c.Sample(map[string]any{"cfg": cases[j].Cfg, "effective": cases[j].Eff, "setup": c09Setup(cases[j], variants[0], false)})
	}
	c.Set("rule", "for each of the six settings every placement of {unset,on,off} at (interface A, method A1, method A2, interface B, method B1) x 3 backgrounds for the other settings x duplicated-notation variant (8748 cases, TLC Options.tla); each case is one two-interface file (interface B also embeds an interface of a sibling file, whose method B2 takes B's settings) plus three single-method files; effective settings are read off a probe struct pair in every generated function and compared with effOpts, each method's own :skip must be honoured and nobody else's, and the function text must equal the single-method generation. Non-trivial: at least one non-default effective value")
}
