package checks

import (
	"encoding/json"
	"fmt"
	"os"
	"path/filepath"
	"sort"
	"strings"

	"verif/internal/core"
	"verif/internal/project"
)

// ---- C06, last clause: spec/ConvRef.tla (a :conv target may be a function generated in the same run)

type convRefCase struct {
	Cfg struct {
		Where     string `json:"where"`
		FileOrder string `json:"fileOrder"`
		RefStyle  string `json:"refStyle"`
		RefRecv   bool   `json:"refRecv"`
		RefErr    bool   `json:"refErr"`
		RefPtr    bool   `json:"refPtr"`
		CallerErr bool   `json:"callerErr"`
	} `json:"cfg"`
	Result struct {
		Reject bool   `json:"reject"`
		Term   string `json:"term"`
		Err    bool   `json:"err"`
	} `json:"result"`
	raw string
}

const convRefTypes = `package p

type RN struct{ X int }

type RM struct{ X int }

type CS struct {
	A int
	N RN
}

type CD struct {
	A int
	N RM
}

type CDP struct {
	A int
	N *RM
}
`

func convRefRender(c *convRefCase) string {
	cf := c.Cfg
	// the referenced method
	var refNotes string
	if cf.RefStyle == "arg" {
		refNotes += "\t// :style arg\n"
	}
	if cf.RefRecv {
		refNotes += "\t// :recv r\n"
	}
	refSig := "Ref(RN) RM"
	if cf.RefPtr {
		refSig = "Ref(*RN) *RM"
	}
	if cf.RefErr {
		refSig = strings.Replace(refSig, ") ", ") (", 1) + ", error)"
	}
	ref := refNotes + "\t" + refSig + "\n"
	dst := "*CD"
	if cf.RefPtr {
		dst = "*CDP"
	}
	callerSig := "Caller(*CS) " + dst
	if cf.CallerErr {
		callerSig = "Caller(*CS) (" + dst + ", error)"
	}
	caller := "\t// :conv Ref N\n\t" + callerSig + "\n"
	var blocks []string
	switch cf.Where {
	case "same":
		if cf.FileOrder == "refFirst" {
			blocks = []string{"type Convergen interface {\n" + ref + caller + "}\n"}
		} else {
			blocks = []string{"type Convergen interface {\n" + caller + ref + "}\n"}
		}
	default:
		// interfaces are processed in name order: AConv < Convergen < ZConv
		refName := "AConv"
		if cf.Where == "later" {
			refName = "ZConv"
		}
		rb := "// :convergen\ntype " + refName + " interface {\n" + ref + "}\n"
		cb := "type Convergen interface {\n" + caller + "}\n"
		if cf.FileOrder == "refFirst" {
			blocks = []string{rb, cb}
		} else {
			blocks = []string{cb, rb}
		}
	}
	return "//go:build convergen\n\npackage p\n\n" + strings.Join(blocks, "\n")
}

// convRefFamily runs the family and reports under the calling property (C06).
func convRefFamily(c *core.Ctx) { convRefRun(c, false) }

// convRefRun: with acceptOnly (C03) only the acceptance of the well-formed placements and the presence
// of both functions is judged - what the call looks like is C06's business.
func convRefRun(c *core.Ctx, acceptOnly bool) {
	early := core.RunTLC(c.Scratch, core.TLCRun{Module: "ConvRef", Config: "MCConvRefEarly.cfg", Workers: 2})
	if early.OK || !strings.Contains(early.Violated, "PlacementFree") {
		core.Machinery("vacuity check failed: SpecEarly should violate PlacementFree (%v %q)", early.OK, early.Violated)
	}
	var cases []*convRefCase
	res := core.MustTLC(c.Scratch, core.TLCRun{Module: "ConvRef", Config: "MCConvRef.cfg", Tags: []string{"CASE"}, Workers: 4,
		OnLine: func(tag, js string) {
			var x convRefCase
			if err := json.Unmarshal([]byte(js), &x); err != nil {
				core.Machinery("bad CASE: %v", err)
			}
			x.raw = js
			cases = append(cases, &x)
		}})
	c.AddTLC(res)
	sort.Slice(cases, func(i, j int) bool { return cases[i].raw < cases[j].raw })
	tool := c.EnsureTool()
	root := filepath.Join(c.Scratch, "convref")
	mod := core.NewModule(root, "crm")
	files := map[string]string{}
	for i, x := range cases {
		d := fmt.Sprintf("r%04d", i)
		files[filepath.Join(d, "setup.go")] = convRefRender(x)
		files[filepath.Join(d, "types.go")] = convRefTypes
	}
	_ = core.WriteFiles(root, files)
	if out, ok := mod.GoVet("convergen", "./..."); !ok {
		core.Machinery("ConvRef inputs do not type-check (harness bug): %s", out)
	}
	results := make([]*core.RunResult, len(cases))
	core.ParallelFor(len(cases), func(i int) {
		results[i] = tool.Run(core.RunOpts{Dir: filepath.Join(root, fmt.Sprintf("r%04d", i)), Args: []string{"setup.go"}})
	})
	for i, x := range cases {
		r := results[i]
		desc := fmt.Sprintf("`:conv Ref N` where Ref is generated in the same run [%s interface, %s in the file, style %s, recv %v, error %v, pointer operands %v; caller error result %v]",
			x.Cfg.Where, x.Cfg.FileOrder, x.Cfg.RefStyle, x.Cfg.RefRecv, x.Cfg.RefErr, x.Cfg.RefPtr, x.Cfg.CallerErr)
		problem := ""
		switch {
		case r.TimedOut || r.Crashed():
			problem = "the tool crashed or hung: " + firstLine(r.Stderr)
		case x.Result.Reject && r.Exit == 0 && acceptOnly:
		case x.Result.Reject && r.Exit == 0:
			problem = "a function that cannot serve as converter (not return style without receiver, or error into an error-less method) was accepted"
		case x.Result.Reject:
		case r.Exit != 0:
			problem = fmt.Sprintf("a well-formed setup file was rejected (exit %d): %s", r.Exit, firstLine(r.Stderr))
		default:
			b, err := os.ReadFile(filepath.Join(root, fmt.Sprintf("r%04d", i), "setup.gen.go"))
			if err != nil {
				problem = "exit 0 but no output"
				break
			}
			f, perr := project.Parse(b, []string{"RN", "RM"})
			if perr != nil {
				problem = "output does not parse: " + perr.Error()
				break
			}
			f.Project(nil)
			fn := f.Func("Caller")
			if fn == nil || f.Func("Ref") == nil {
				problem = "function Caller or Ref missing in the output"
				break
			}
			if acceptOnly {
				break
			}
			found := false
			for _, st := range fn.Body {
				if st.Kind == "assign" && st.LHS == "DST.N" {
					found = true
					if st.Term != x.Result.Term {
						problem = fmt.Sprintf("dst.N = %s, required %s", st.Term, x.Result.Term)
					} else if st.Err != x.Result.Err || (st.Err && !st.ErrChecked) {
						problem = fmt.Sprintf("error handling of the call differs (receives error %v, checked %v; required %v)", st.Err, st.ErrChecked, x.Result.Err)
					}
				}
			}
			if !found && problem == "" {
				problem = "dst.N is not assigned from the generated converter"
			}
		}
		c.Nontrivial(x.raw)
		if problem != "" {
			d := fmt.Sprintf("r%04d", i)
			fl := map[string]string{"go.mod": "module crm\n\ngo 1.19\n", "p/setup.go": files[filepath.Join(d, "setup.go")], "p/types.go": convRefTypes}
			path := c.WriteReplay(core.HashID(x.raw), &core.ReplayFile{Family: "convref", Case: json.RawMessage(x.raw), Files: fl, Command: []string{"convergen", "setup.go"},
				Observed: map[string]any{"exit": r.Exit, "stderr": firstLine(r.Stderr)}, Expected: x.Result, Diff: problem})
			c.Report("", desc+": "+problem, path)
		}
	}
	c.AddCount("traces_validated_against_impl", int64(len(cases)))
	c.AddCount("evaluations", int64(len(cases)))
	c.Set("convref_cases", len(cases))
	c.Sample(map[string]any{"family": "convref", "cfg": cases[len(cases)/2].Cfg, "required": cases[len(cases)/2].Result, "setup": convRefRender(cases[len(cases)/2])})
}
