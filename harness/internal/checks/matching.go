package checks

import (
	"encoding/json"
	"fmt"
	"path/filepath"
	"regexp"
	"sort"
	"strconv"
	"strings"

	"verif/internal/b1"
	"verif/internal/core"
	"verif/internal/universe"
)

// ---- struct-level walk with notations (spec/Matching.tla): C05, C06, C04 (struct level), C07 (static), C01.

type mStep struct {
	N    string `json:"n"`
	Call bool   `json:"call"`
	Arg  int    `json:"arg"`
}
type mNote struct {
	K    string   `json:"k"`
	Dst  []string `json:"dst"`
	Pk   string   `json:"pk"`
	Src  []mStep  `json:"src"`
	Fn   string   `json:"fn"`
	Text string   `json:"text"`
}
type mOut struct {
	K string `json:"k"`
	T string `json:"t"`
	M string `json:"m"`
	E string `json:"e"`
}
type mAlt struct {
	O   mOut   `json:"o"`
	Pos string `json:"pos"`
}
type mEntry struct {
	Path string `json:"path"`
	Alts []mAlt `json:"alts"`
	Kind string `json:"kind"`
}
type mProg struct {
	Dst    string   `json:"dst"`
	Src    string   `json:"src"`
	Args   []string `json:"args"`
	RetErr bool     `json:"retErr"`
	O      struct {
		Case     bool   `json:"case"`
		Getter   bool   `json:"getter"`
		Stringer bool   `json:"stringer"`
		Typecast bool   `json:"typecast"`
		Rule     string `json:"rule"`
	} `json:"o"`
	Notes []mNote `json:"notes"`
}
type wCase struct {
	Prog   mProg    `json:"prog"`
	Reject bool     `json:"reject"`
	Plan   []mEntry `json:"plan"`
	Warns  []struct {
		Path string `json:"path"`
		Pos  string `json:"pos"`
	} `json:"warns"`
	Leaves    []string `json:"leaves"`
	Paths     []string `json:"paths"`
	nOptLines int
}

func worldExtra() map[string]string {
	w, err := universe.CheckWorld()
	if err != nil {
		core.Machinery("note world does not type-check: %v", err)
	}
	return map[string]string{"WorldTable.tla": w.Table()}
}

func mNoteText(n *mNote) string {
	srcPath := func() string {
		var parts []string
		for i, s := range n.Src {
			if i == 0 && s.Arg > 0 {
				parts = append(parts, "$"+strconv.Itoa(s.Arg))
				continue
			}
			if s.Call {
				parts = append(parts, s.N+"()")
			} else {
				parts = append(parts, s.N)
			}
		}
		return strings.Join(parts, ".")
	}
	dst := strings.Join(n.Dst, ".")
	switch n.K {
	case "skip":
		switch n.Pk {
		case "prefix":
			return `:skip /^` + regexp.QuoteMeta(dst) + `\./`
		case "suffix":
			return `:skip /(^|\.)` + regexp.QuoteMeta(dst) + `$/`
		case "tail":
			if strings.ContainsAny(dst, ".") {
				core.Machinery("tail pattern with a dot: %s", dst)
			}
			return `:skip /` + regexp.QuoteMeta(dst) + `$/`
		}
		return ":skip " + dst
	case "map":
		return ":map " + srcPath() + " " + dst
	case "conv":
		return ":conv " + n.Fn + " " + srcPath() + " " + dst
	case "lit":
		return ":literal " + dst + " " + n.Text
	}
	panic("unknown notation kind " + n.K)
}

func mDescribe(m *wCase) string {
	var ns []string
	p := m.Prog
	if !p.O.Case {
		ns = append(ns, ":case:off")
	}
	if p.O.Getter {
		ns = append(ns, ":getter")
	}
	if p.O.Stringer {
		ns = append(ns, ":stringer")
	}
	if p.O.Typecast {
		ns = append(ns, ":typecast")
	}
	if p.O.Rule == "none" {
		ns = append(ns, ":match none")
	}
	for i := range p.Notes {
		ns = append(ns, mNoteText(&p.Notes[i]))
	}
	res := "*" + p.Dst
	if p.RetErr {
		res = "(" + res + ", error)"
	}
	args := ""
	for _, a := range p.Args {
		args += ", " + a
	}
	return fmt.Sprintf("W(*%s%s) %s [%s]", p.Src, args, res, strings.Join(ns, "; "))
}

func mConcretise(k int, m *wCase) *b1.Case {
	js, _ := json.Marshal(m)
	p := m.Prog
	var notes []string
	if !p.O.Case {
		notes = append(notes, ":case:off")
	}
	if p.O.Getter {
		notes = append(notes, ":getter")
	}
	if p.O.Stringer {
		notes = append(notes, ":stringer")
	}
	if p.O.Typecast {
		notes = append(notes, ":typecast")
	}
	if p.O.Rule == "none" {
		notes = append(notes, ":match none")
	}
	// where the option lines stand relative to the notations is irrelevant to the specification (the LAST
	// :case / :case:off of the comment decides, also for a :skip read earlier): vary it
	m.nOptLines = len(notes)
	var ns []string
	for i := range p.Notes {
		ns = append(ns, mNoteText(&p.Notes[i]))
	}
	if hashMod(string(js), 7, 2) == 0 {
		notes = append(notes, ns...)
	} else {
		m.nOptLines = 0
		notes = append(ns, notes...)
	}
	params := []string{"*" + p.Src}
	params = append(params, p.Args...)
	res := "*" + p.Dst
	if p.RetErr {
		res = "(" + res + ", error)"
	}
	alone := m.Reject
	for _, e := range m.Plan {
		for _, a := range e.Alts {
			if a.O.K == "reject" {
				alone = true
			}
		}
	}
	return &b1.Case{ID: core.HashID(string(js)), JSON: js, Func: fmt.Sprintf("W%d", k), Style: "return", Notes: notes,
		Method: fmt.Sprintf("W%d(%s) %s", k, strings.Join(params, ", "), res), Alone: alone, Data: m}
}

func mEnumerate(c *core.Ctx, cfg string, keepOneIn int, filter func(*wCase) bool) []*wCase {
	var cases []*wCase
	total := 0
	res := core.MustTLC(c.Scratch, core.TLCRun{Module: "MCMatching", Config: cfg, Extra: worldExtra(), Tags: []string{"CASE"}, Workers: 12, Timeout: minutes(40), HeapGB: 10,
		OnLine: func(tag, js string) {
			total++
			var m wCase
			if err := json.Unmarshal([]byte(js), &m); err != nil {
				core.Machinery("bad CASE: %v: %s", err, js)
			}
			if filter != nil && !filter(&m) {
				return
			}
			if keepOneIn > 1 && hashMod(js, c.Seed, keepOneIn) != 0 {
				return
			}
			cases = append(cases, &m)
		}})
	c.AddTLC(res)
	c.AddCount("tlc_cases_total", int64(total))
	if len(cases) == 0 {
		core.Machinery("MCMatching emitted no cases")
	}
	sort.Slice(cases, func(i, j int) bool { return mDescribe(cases[i]) < mDescribe(cases[j]) })
	return cases
}

func mOptions(name string, compile bool) b1.Options {
	return b1.Options{Name: name, PerFile: 60, Family: "matching", Compile: compile, Local: universe.WorldLocalSrc,
		Ext:       map[string]string{"wext": strings.ReplaceAll(universe.WorldExtSrc, "%MOD%", "b1m"), "wdeep": universe.WorldDeepSrc},
		TypeNames: []string{"NIn", "NIn2", "NOut", "WInt", "ArgS", "Emb", "Deep", "DeepOut", "wext.XIn", "wext.XCode", "wext.XEmb", "wext.HoldS", "wext.HoldD", "wdeep.TS", "wdeep.TD"}}
}

func mAllowedOutcomes(e *mEntry) []outcome {
	var out []outcome
	for _, a := range e.Alts {
		t := a.O.T
		if strings.HasPrefix(t, "lit:") {
			t = "lit[" + strings.TrimPrefix(t, "lit:") + "]"
		}
		out = append(out, outcome{K: a.O.K, T: t, M: a.O.M})
	}
	return out
}

var reWarn = regexp.MustCompile(`^(\S+\.go):(\d+):(\d+): no assignment for (\S+)`)

// mAspects judges one result under every aspect; the caller picks the ones its property states.
type mVerdicts struct {
	failed   string   // the run failed although it had to succeed (or the other way round)
	coverage []string // C05: covering relation
	warnings []string // C05: warnings
	explicit []string // C06: outcomes of paths named by / affected by notations
	defaults []string // C04: outcomes of default-matched paths
	errs     []string // C07: error plumbing
}

func mJudgeAll(r *b1.Result) mVerdicts {
	m := r.Case.Data.(*wCase)
	var v mVerdicts
	if r.TimedOut || r.Crashed {
		v.failed = "the tool crashed or hung: " + firstLine(r.Stderr)
		return v
	}
	mayReject := m.Reject
	for _, e := range m.Plan {
		for _, a := range e.Alts {
			if a.O.K == "reject" {
				mayReject = true
			}
		}
	}
	if r.Exit != 0 {
		if !mayReject {
			v.failed = fmt.Sprintf("the tool rejected a valid program (exit %d): %s", r.Exit, firstLine(r.Stderr))
		}
		return v
	}
	if m.Reject {
		v.failed = "the program names a converter that cannot be used, but the tool accepted it"
		return v
	}
	if r.Fn == nil {
		v.failed = "no function in the output: " + r.ParseErr
		return v
	}
	// covering relation on the real body
	seen := map[string]int{}
	for _, s := range r.Fn.Body {
		switch s.Kind {
		case "assign", "slice", "skip", "nomatch":
			if strings.HasPrefix(s.LHS, "DST.") {
				seen[strings.TrimPrefix(s.LHS, "DST.")]++
			} else {
				v.coverage = append(v.coverage, "a line addresses "+s.LHS+", which is not a destination member")
			}
		}
	}
	planPaths := map[string]*mEntry{}
	for i := range m.Plan {
		planPaths[m.Plan[i].Path] = &m.Plan[i]
	}
	// C05 proper: every accessible leaf (recomputed by the specification from the type table,
	// independently of the walk) is covered exactly once by a line on itself or on an enclosing
	// struct; every line addresses an accessible, existing member
	exists := map[string]bool{}
	for _, p := range m.Paths {
		exists[p] = true
	}
	for p, n := range seen {
		if n > 1 {
			v.coverage = append(v.coverage, fmt.Sprintf("dst.%s is covered %d times", p, n))
		}
		if !exists[p] {
			v.coverage = append(v.coverage, fmt.Sprintf("dst.%s is mentioned although the generated package cannot see it (or it does not exist)", p))
		}
	}
	for _, l := range m.Leaves {
		n := 0
		for p, k := range seen {
			if p == l || strings.HasPrefix(l, p+".") {
				n += k
			}
		}
		switch {
		case n == 0:
			v.coverage = append(v.coverage, fmt.Sprintf("dst.%s is not covered by any line (silently dropped)", l))
		case n > 1:
			v.coverage = append(v.coverage, fmt.Sprintf("dst.%s is covered %d times (by itself and by an enclosing struct)", l, n))
		}
	}
	sort.Strings(v.coverage)
	// outcomes
	lineOf := func(pos string) int {
		if pos == "method" {
			return r.SetupLine
		}
		i, _ := strconv.Atoi(strings.TrimPrefix(pos, "note"))
		k := m.nOptLines + i - 1
		if k >= 0 && k < len(r.NoteLines) {
			return r.NoteLines[k]
		}
		return -1
	}
	type warn struct {
		line int
		path string
	}
	wantWarn := map[warn]bool{}
	for i := range m.Plan {
		e := &m.Plan[i]
		if seen[e.Path] == 0 {
			// not covered by a line of its own: which line covers it instead?
			cover := ""
			for p := range seen {
				if strings.HasPrefix(e.Path, p+".") || strings.HasPrefix(p, e.Path+".") {
					cover = p
				}
			}
			if cover != "" {
				msg := fmt.Sprintf("dst.%s: the specification requires its own line %s, but it is covered through dst.%s", e.Path, fmtAllowed(mAllowedOutcomes(e)), cover)
				if len(m.Prog.Notes) == 0 {
					v.defaults = append(v.defaults, msg)
				} else {
					v.explicit = append(v.explicit, msg)
				}
			}
			continue
		}
		if seen[e.Path] != 1 {
			continue
		}
		o, _ := fieldOutcome(r.Fn, "DST."+e.Path)
		allowed := mAllowedOutcomes(e)
		ok := outcomeIn(o, allowed)
		msg := fmt.Sprintf("dst.%s: generated %s, the specification permits %s", e.Path, fmtAllowed([]outcome{o}), fmtAllowed(allowed))
		if !ok {
			if e.Kind == "default" && len(m.Prog.Notes) == 0 {
				v.defaults = append(v.defaults, msg)
			} else {
				v.explicit = append(v.explicit, msg)
			}
		}
		// error plumbing of the generated statement
		for _, s := range r.Fn.Body {
			if s.LHS != "DST."+e.Path || s.Kind != "assign" {
				continue
			}
			wantErr := false
			for _, a := range e.Alts {
				if a.O.E == "err" && normTerm(strings.Replace(a.O.T, "lit:", "", 1)) == normTerm(o.T) {
					wantErr = true
				}
			}
			switch {
			case s.Err && !m.Prog.RetErr:
				v.errs = append(v.errs, fmt.Sprintf("dst.%s: an error-returning source is wired into a function without error result", e.Path))
			case s.Err && !s.ErrChecked:
				v.errs = append(v.errs, fmt.Sprintf("dst.%s: the error of `%s` is not checked", e.Path, s.Text))
			case ok && wantErr && !s.Err:
				v.errs = append(v.errs, fmt.Sprintf("dst.%s: the source returns an error but it is not received", e.Path))
			}
		}
		if o.K == "nomatch" {
			// a warning at the position of one of the alternatives that permit no-match
			found := false
			for _, a := range e.Alts {
				if a.O.K == "nomatch" {
					wantWarn[warn{lineOf(a.Pos), e.Path}] = true
					found = true
				}
			}
			_ = found
		}
	}
	// warnings of this method: lines that point at the method or at one of its notations
	mine := map[int]bool{r.SetupLine: true}
	for _, l := range r.NoteLines {
		mine[l] = true
	}
	gotWarn := map[warn]int{}
	for _, l := range strings.Split(r.Stderr, "\n") {
		w := reWarn.FindStringSubmatch(strings.TrimSpace(l))
		if w == nil {
			continue
		}
		ln, _ := strconv.Atoi(w[2])
		if !mine[ln] {
			continue
		}
		// a position is a place in the setup file: the file it names must be that file
		if w[1] != r.SetupPath && w[1] != filepath.Base(r.SetupPath) {
			if a, err := filepath.Abs(filepath.Join(filepath.Dir(r.SetupPath), w[1])); err != nil || a != r.SetupPath {
				continue
			}
		}
		path := w[4]
		if i := strings.Index(path, "."); i >= 0 {
			path = path[i+1:]
		}
		gotWarn[warn{ln, path}]++
	}
	// positions at which a no-match of path p may be reported: those of the specification's no-match
	// alternatives if it has any, else the method or any notation naming that path
	okLines := func(path string) map[int]bool {
		ls := map[int]bool{}
		if e := planPaths[path]; e != nil {
			for _, a := range e.Alts {
				if a.O.K == "nomatch" {
					ls[lineOf(a.Pos)] = true
				}
			}
		}
		if len(ls) == 0 {
			ls[r.SetupLine] = true
			for i, n := range m.Prog.Notes {
				if strings.Join(n.Dst, ".") == path {
					ls[lineOf("note"+strconv.Itoa(i+1))] = true
				}
			}
		}
		return ls
	}
	for p := range seen {
		o, _ := fieldOutcome(r.Fn, "DST."+p)
		if o.K != "nomatch" || seen[p] != 1 {
			continue
		}
		n := 0
		var lines []string
		for l := range okLines(p) {
			n += gotWarn[warn{l, p}]
			lines = append(lines, strconv.Itoa(l))
		}
		sort.Strings(lines)
		if n == 0 {
			v.warnings = append(v.warnings, fmt.Sprintf("dst.%s is reported `no match` in the code but there is no warning at line %s of the setup file", p, strings.Join(lines, " or ")))
		}
	}
	for w, n := range gotWarn {
		legit := false
		if seen[w.path] == 1 {
			if o, _ := fieldOutcome(r.Fn, "DST."+w.path); o.K == "nomatch" && okLines(w.path)[w.line] {
				legit = true
			}
		}
		if !legit {
			v.warnings = append(v.warnings, fmt.Sprintf("warning `no assignment for dst.%s` at line %d (%d time(s)) has no corresponding `no match` line at that position", w.path, w.line, n))
		} else if n > 1 {
			v.warnings = append(v.warnings, fmt.Sprintf("warning for dst.%s at line %d is printed %d times", w.path, w.line, n))
		}
	}
	sort.Strings(v.warnings)
	return v
}

func mJudge(pick func(*mVerdicts, *wCase) ([]string, string)) func(*b1.Result) b1.Verdict {
	return func(r *b1.Result) b1.Verdict {
		m := r.Case.Data.(*wCase)
		all := mJudgeAll(r)
		problems, nontrivial := pick(&all, m)
		v := b1.Verdict{Nontrivial: nontrivial}
		if len(problems) == 0 {
			v.OK = true
			return v
		}
		v.What = mDescribe(m) + ": " + strings.Join(uniq(problems, 4), "; ")
		v.Deviation = mDeviation(m, r, problems)
		return v
	}
}

// mDeviation names the known deviation a mismatch falls under: predicate on the
// program AND on the observed outcome.
func mDeviation(m *wCase, r *b1.Result, problems []string) string {
	// KF-C06-1: an explicit :map/:conv/:literal names a struct-typed path while a :skip addresses a
	// member below it; the tool assigns the struct as a whole (skipped member included).
	if r.Fn != nil && len(problems) > 0 {
		all := true
		for _, p := range problems {
			ok := false
			for _, e := range m.Plan {
				if e.Kind != "explicit" || !strings.HasPrefix(p, "dst."+e.Path+": generated {") || strings.Contains(p, "generated {nomatch") {
					continue
				}
				onlyNoMatch := true
				for _, a := range e.Alts {
					if a.O.K != "nomatch" {
						onlyNoMatch = false
					}
				}
				hasSkip := false
				for _, n := range m.Prog.Notes {
					if n.K == "skip" {
						hasSkip = true
					}
				}
				if onlyNoMatch && hasSkip {
					ok = true
				}
			}
			if !ok {
				all = false
			}
		}
		if all {
			return "explicit-whole-value-over-skipped-member"
		}
	}
	return ""
}

func mHasNotes(m *wCase) bool { return len(m.Prog.Notes) > 0 }

func mCases(c *core.Ctx, keepQuick int, filter func(*wCase) bool) ([]*wCase, []*b1.Case) {
	cfg, keep := "MCMatchingQ.cfg", keepQuick
	if c.Thorough() {
		cfg, keep = "MCMatching.cfg", 1
	}
	ms := mEnumerate(c, cfg, keep, filter)
	var cases []*b1.Case
	first, last := 0, 0
	for i, m := range ms {
		cases = append(cases, mConcretise(i, m))
		if len(m.Prog.Notes) > 0 && m.nOptLines > 0 {
			first++
		} else if len(m.Prog.Notes) > 0 {
			last++
		}
	}
	// both placements of the option lines must really occur (a constant sampling bit once hid one of them)
	if first+last > 200 && (first == 0 || last*20 < first) {
		core.Machinery("matching concretiser: option lines before the notations in %d programs, after them in %d: one placement is not exercised", first, last)
	}
	return ms, cases
}

func mSample(c *core.Ctx, ms []*wCase, cases []*b1.Case) {
	for _, j := range []int{len(ms) / 5, len(ms) / 2, (4 * len(ms)) / 5} {
		if j < len(ms) {
			c.Sample(map[string]any{"program": mDescribe(ms[j]), "method": cases[j].Method, "notations": cases[j].Notes, "plan": ms[j].Plan})
		}
	}
}

// C05: covering relation and warnings.
func C05(c *core.Ctx) {
	if c.Replay != "" {
		if !replayB1(c, nil, nil, nil, mJudge(func(v *mVerdicts, m *wCase) ([]string, string) {
			p := append([]string(nil), v.coverage...)
			return append(p, v.warnings...), ""
		}), false) {
			replayUnsupported(c)
		}
		return
	}
	ms, cases := mCases(c, 2, nil)
	st := b1.Run(c, mOptions("m05", false), cases, mJudge(func(v *mVerdicts, m *wCase) ([]string, string) {
		nt := ""
		for _, e := range m.Plan {
			for _, a := range e.Alts {
				if a.O.K == "nomatch" || a.O.K == "skip" {
					nt = mDescribe(m)
				}
			}
		}
		var p []string
		if v.failed != "" && strings.Contains(v.failed, "crashed") {
			p = append(p, v.failed)
		}
		p = append(p, v.coverage...)
		p = append(p, v.warnings...)
		return p, nt
	}))
	c.Set("matching_cases", st.Cases)
	c.Set("exhaustive", c.Thorough())
	mSample(c, ms, cases)
	c.Set("rule", "programs of MCMatching (4 destination shapes incl. nested, deep, embedded imported, anonymous, imported with unexported members, empty x option vectors x notation sets: none, every single :skip/:map/:conv/:literal/$n over the world's own paths and functions, interaction pairs); for each generated function the set of destination paths covered by assign/skip/no-match lines must equal the specification's plan paths (each exactly once, inaccessible members absent) and stderr warnings must sit at the method or at the failing notation for exactly the no-match lines. Non-trivial: plan contains a skip or no-match")
}

// C06: explicit notations.
func C06(c *core.Ctx) {
	if c.Replay != "" {
		if !replayB1(c, nil, nil, nil, mJudge(func(v *mVerdicts, m *wCase) ([]string, string) {
			var p []string
			if v.failed != "" {
				p = append(p, v.failed)
			}
			return append(p, v.explicit...), ""
		}), false) {
			replayUnsupported(c)
		}
		return
	}
	ms, cases := mCases(c, 2, mHasNotes)
	st := b1.Run(c, mOptions("m06", false), cases, mJudge(func(v *mVerdicts, m *wCase) ([]string, string) {
		var p []string
		if v.failed != "" {
			p = append(p, v.failed)
		}
		p = append(p, v.explicit...)
		return p, mDescribe(m)
	}))
	c.Set("matching_cases", st.Cases)
	c.Set("exhaustive", c.Thorough())
	mSample(c, ms, cases)
	convRefFamily(c)
	c.Set("rule", "ConvRef.tla: all 192 placements/shapes of a :conv target generated in the same run (same / earlier / later interface x file order x style x receiver x error x pointer operands); programs of MCMatching with at least one notation: every :skip (exact, lower-cased, /^P\\./ prefix and /(^|\\.)X$/ suffix regexps, both case modes), :map (fields, getter chains, promoted and embedded members, through pointers, unresolvable, ill-typed), :map $n (source operand, arguments, out of range), :conv (14 functions incl. pointer argument, error result, wrong arity, non-function, missing, imported) and :literal on top-level and nested targets, plus interaction pairs (skip vs explicit on the same path / on the parent, two explicit notations on one path, notation below a copyable struct); the projected outcome of every plan path must be in the permitted set. Distinct = distinct programs")
}
