package checks

import (
	"bufio"
	"encoding/json"
	"fmt"
	"os"
	"path/filepath"
	"regexp"
	"sort"
	"strconv"
	"strings"
	"verif/internal/b1"

	"verif/internal/core"
	"verif/internal/genexec"
)

// ---- B2: spec/GenExec.tla (programs) + spec/GenExecTrace.tla (trace validation): C02 C07 C10(dyn) C16(dyn)

type gxRun struct {
	first, last int // line range in the trace (0-based, inclusive)
	begin       map[string]any
}

type gxTrace struct {
	lines []string
	runs  []gxRun
	progs map[string]*genexec.Prog
	stats map[string]int
	bad   []*genexec.Prog // programs whose generated function does not compile (C01's business)
}

var reHW = regexp.MustCompile(`^<<"HW", (\d+), (\d+)>>`)

// gxPrograms asks TLC for the programs (and checks the abstract machine's properties on the way).
func gxPrograms(c *core.Ctx, keepOneIn int) []*genexec.Prog {
	cfg := "MCGenExecQ.cfg"
	if c.Thorough() {
		cfg = "MCGenExec.cfg"
	}
	var progs []*genexec.Prog
	seen := map[string]bool{}
	res := core.MustTLC(c.Scratch, core.TLCRun{Module: "MCGenExec", Config: cfg, Tags: []string{"PROG"}, Workers: 8, Timeout: minutes(30),
		OnLine: func(tag, js string) {
			if seen[js] {
				return
			}
			seen[js] = true
			var p genexec.Prog
			if err := json.Unmarshal([]byte(js), &p); err != nil {
				core.Machinery("bad PROG: %v: %s", err, js)
			}
			sort.Strings(p.Kinds)
			// fixed core: every kind alone and the all-kinds program, pointer-return style, both hooks with error
			coreCase := (len(p.Kinds) == 1 || len(p.Kinds) > 12) && p.Pre.On && p.Post.On && p.Pre.Err
			if keepOneIn > 1 && !coreCase && hashMod(js, c.Seed, keepOneIn) != 0 {
				return
			}
			progs = append(progs, &p)
		}})
	c.AddTLC(res)
	c.Set("tlc_programs_total", len(seen))
	if len(progs) == 0 {
		core.Machinery("MCGenExec emitted no programs")
	}
	sort.Slice(progs, func(i, j int) bool { return fmt.Sprint(*progs[i]) < fmt.Sprint(*progs[j]) })
	for i, p := range progs {
		p.Name = fmt.Sprintf("%04d", i)
	}
	// the harness's fragment table must cover the specification's kinds
	known := map[string]bool{}
	for _, k := range genexec.Kinds() {
		known[k] = true
	}
	for _, p := range progs {
		for _, k := range p.Kinds {
			if !known[k] {
				core.Machinery("fragment kind %q of GenExecFrag.tla has no Go fragment", k)
			}
		}
	}
	return progs
}

var errSitesOf = map[string][]string{"convE": {"CvE"}, "mapE": {"GetE"}, "nestE": {"CvE2"}, "nestE2": {"CvE3"}}

// gxRecord generates, builds and runs everything and returns the recorded trace.
func gxRecord(c *core.Ctx, progs []*genexec.Prog) *gxTrace {
	tool := c.EnsureTool()
	root := filepath.Join(c.Scratch, "gx")
	mod := core.NewModule(root, "gxm")
	files := map[string]string{"vrt/vrt.go": genexec.VrtSrc}
	const perPkg = 40
	type pack struct {
		name  string
		progs []*genexec.Prog
		ok    bool
	}
	var packs []*pack
	for i := 0; i < len(progs); i += perPkg {
		j := i + perPkg
		if j > len(progs) {
			j = len(progs)
		}
		packs = append(packs, &pack{name: fmt.Sprintf("p%03d", len(packs)), progs: progs[i:j]})
	}
	for _, pk := range packs {
		var setup, shared, reg strings.Builder
		setup.WriteString("//go:build convergen\n\npackage " + pk.name + "\n\ntype Convergen interface {\n")
		shared.WriteString("package " + pk.name + "\n\nimport \"gxm/vrt\"\n" + genexec.SharedSrc + "\n")
		reg.WriteString("//go:build !convergen\n\npackage " + pk.name + "\n\n// Registry maps program names to the generated functions.\nvar Registry = map[string]interface{}{\n")
		for _, p := range pk.progs {
			for _, n := range p.Notes() {
				setup.WriteString("\t// " + n + "\n")
			}
			setup.WriteString("\t" + p.Method() + "\n")
			shared.WriteString(p.Decls())
			fmt.Fprintf(&reg, "\t%q: %s,\n", p.Name, p.RegistryExpr())
		}
		setup.WriteString("}\n")
		reg.WriteString("}\n")
		files[pk.name+"/setup.go"] = setup.String()
		files[pk.name+"/shared.go"] = shared.String()
		files[pk.name+"/registry.go"] = reg.String()
	}
	if err := core.WriteFiles(root, files); err != nil {
		core.Machinery("write: %v", err)
	}
	if out, ok := mod.GoVet("convergen", "./..."); !ok {
		core.Machinery("B2 inputs do not type-check (harness bug):\n%s", firstLines(out, 30))
	}
	results := make([]*core.RunResult, len(packs))
	core.ParallelFor(len(packs), func(i int) {
		results[i] = tool.Run(core.RunOpts{Dir: filepath.Join(root, packs[i].name), Args: []string{"setup.go"}})
	})
	t := &gxTrace{progs: map[string]*genexec.Prog{}, stats: map[string]int{}}
	var good []*pack
	for i, pk := range packs {
		if results[i].Exit == 0 && !results[i].TimedOut {
			pk.ok = true
			good = append(good, pk)
		} else {
			t.stats["packages_rejected_by_tool"]++
			fmt.Fprintf(os.Stderr, "note: the tool failed on B2 package %s (exit %d): %s\n", pk.name, results[i].Exit, firstLine(results[i].Stderr))
		}
	}
	// build; programs whose generated function does not compile are dropped (that is C01's business) and
	// their package is generated again without them
	writePack := func(pk *pack) {
		var setup, shared, reg strings.Builder
		setup.WriteString("//go:build convergen\n\npackage " + pk.name + "\n\ntype Convergen interface {\n")
		shared.WriteString("package " + pk.name + "\n\nimport \"gxm/vrt\"\n" + genexec.SharedSrc + "\n")
		reg.WriteString("//go:build !convergen\n\npackage " + pk.name + "\n\n// Registry maps program names to the generated functions.\nvar Registry = map[string]interface{}{\n")
		for _, p := range pk.progs {
			for _, n := range p.Notes() {
				setup.WriteString("\t// " + n + "\n")
			}
			setup.WriteString("\t" + p.Method() + "\n")
			shared.WriteString(p.Decls())
			fmt.Fprintf(&reg, "\t%q: %s,\n", p.Name, p.RegistryExpr())
		}
		setup.WriteString("}\n")
		reg.WriteString("}\n")
		_ = os.Remove(filepath.Join(root, pk.name, "setup.gen.go"))
		_ = core.WriteFiles(root, map[string]string{pk.name + "/setup.go": setup.String(), pk.name + "/shared.go": shared.String(), pk.name + "/registry.go": reg.String()})
	}
	reLine := regexp.MustCompile(`(p\d+)/setup\.gen\.go:(\d+):`)
	for attempt := 0; attempt < 5; attempt++ {
		var imp, regs strings.Builder
		for _, pk := range good {
			fmt.Fprintf(&imp, "\t%s \"gxm/%s\"\n", pk.name, pk.name)
			fmt.Fprintf(&regs, "\tfor k, v := range %s.Registry {\n\t\tRegistry[k] = v\n\t}\n", pk.name)
		}
		regSrc := "package p\n\nimport (\n" + imp.String() + ")\n\nvar Registry = map[string]interface{}{}\n\nfunc init() {\n" + regs.String() + "}\n"
		_ = core.WriteFiles(root, map[string]string{"p/reg.go": regSrc, "drv/main.go": genexec.DriverSrc})
		so, se, code := core.RunCmd(root, core.GoEnv(), "go", "build", "-gcflags=-e", "./p", "./drv")
		out := so + se
		if code == 0 {
			break
		}
		// which functions do the diagnostics point into?
		badProgs := map[string]map[string]bool{}
		for _, m := range reLine.FindAllStringSubmatch(out, -1) {
			ln, _ := strconv.Atoi(m[2])
			gen, err := os.ReadFile(filepath.Join(root, m[1], "setup.gen.go"))
			if err != nil {
				continue
			}
			lines := strings.Split(string(gen), "\n")
			for k := ln - 1; k >= 0 && k < len(lines); k-- {
				if strings.HasPrefix(lines[k], "func X") {
					name := lines[k][len("func X"):]
					if i := strings.IndexByte(name, '('); i > 0 {
						if badProgs[m[1]] == nil {
							badProgs[m[1]] = map[string]bool{}
						}
						badProgs[m[1]][name[:i]] = true
					}
					break
				}
			}
		}
		if len(badProgs) == 0 || attempt == 4 {
			core.Machinery("cannot build the B2 driver:\n%s", firstLines(out, 20))
		}
		var keep []*pack
		for _, pk := range good {
			bp := badProgs[pk.name]
			if len(bp) == 0 {
				keep = append(keep, pk)
				continue
			}
			var ps []*genexec.Prog
			for _, p := range pk.progs {
				if bp[p.Name] {
					t.stats["functions_not_compiling"]++
					t.bad = append(t.bad, p)
				} else {
					ps = append(ps, p)
				}
			}
			pk.progs = ps
			if len(ps) == 0 {
				continue
			}
			writePack(pk)
			r := tool.Run(core.RunOpts{Dir: filepath.Join(root, pk.name), Args: []string{"setup.go"}})
			if r.Exit == 0 {
				keep = append(keep, pk)
			} else {
				t.stats["packages_rejected_by_tool"]++
			}
		}
		good = keep
		if len(good) == 0 {
			break
		}
	}
	if t.stats["functions_not_compiling"] > 0 {
		fmt.Fprintf(os.Stderr, "note: %d generated function(s) do not compile and are left out of the run-time side\n", t.stats["functions_not_compiling"])
	}
	if len(good) == 0 {
		t.stats["functions"] = 0
		return t
	}
	bin := filepath.Join(root, "drv.bin")
	if _, se, code := core.RunCmd(root, core.GoEnv(), "go", "build", "-o", bin, "./drv"); code != 0 {
		core.Machinery("cannot link the B2 driver: %s", se)
	}
	type dprog struct {
		Name         string       `json:"name"`
		Kinds        []string     `json:"kinds"`
		Style        string       `json:"style"`
		Pre          genexec.Hook `json:"pre"`
		Post         genexec.Hook `json:"post"`
		RetErr       bool         `json:"retErr"`
		Scalars      []string     `json:"scalars"`
		ErrSites     []string     `json:"errSites"`
		MaxFaultSets int          `json:"maxFaultSets"`
	}
	var dps []dprog
	for _, pk := range good {
		for _, p := range pk.progs {
			t.progs[p.Name] = p
			var sc []string
			for _, s := range p.Scalars() {
				sc = append(sc, s[:strings.IndexByte(s, ':')])
			}
			var es []string
			for _, k := range p.Kinds {
				es = append(es, errSitesOf[k]...)
			}
			if p.Pre.On && p.Pre.Err {
				es = append(es, "Pre")
			}
			if p.Post.On && p.Post.Err {
				es = append(es, "Post")
			}
			dps = append(dps, dprog{Name: p.Name, Kinds: p.Kinds, Style: p.Style, Pre: p.Pre, Post: p.Post, RetErr: p.RetErr, Scalars: sc, ErrSites: es, MaxFaultSets: 32})
		}
	}
	pj, _ := json.Marshal(dps)
	planPath := filepath.Join(root, "programs.json")
	tracePath := filepath.Join(root, "trace.ndjson")
	_ = os.WriteFile(planPath, pj, 0o644)
	if so, se, code := core.RunCmd(root, core.GoEnv(), bin, planPath, tracePath); code != 0 {
		core.Machinery("the B2 driver failed: %s %s", so, se)
	}
	f, err := os.Open(tracePath)
	if err != nil {
		core.Machinery("no trace: %v", err)
	}
	defer f.Close()
	sc := bufio.NewScanner(f)
	sc.Buffer(make([]byte, 1<<20), 1<<24)
	for sc.Scan() {
		line := sc.Text()
		t.lines = append(t.lines, line)
		if strings.HasPrefix(line, `{"args"`) || strings.Contains(line, `"ev":"begin"`) {
			var ev map[string]any
			_ = json.Unmarshal([]byte(line), &ev)
			if ev["ev"] == "begin" {
				if n := len(t.runs); n > 0 {
					t.runs[n-1].last = len(t.lines) - 2
				}
				t.runs = append(t.runs, gxRun{first: len(t.lines) - 1, begin: ev})
			}
		}
	}
	if n := len(t.runs); n > 0 {
		t.runs[n-1].last = len(t.lines) - 1
	}
	if len(t.runs) == 0 {
		core.Machinery("the B2 driver recorded no run")
	}
	t.stats["functions"] = len(t.progs)
	t.stats["runs"] = len(t.runs)
	t.stats["events"] = len(t.lines)
	return t
}

// gxValidate checks lines against GenExecTrace with the given cfg. It returns
// the index (0-based) of the first line TLC could not explain, or -1.
func gxValidate(c *core.Ctx, lines []string, cfg string) int {
	hw, total := -1, -1
	// named deviations that are open known findings of this property are enabled in the trace specification
	cfgText, err := os.ReadFile(filepath.Join(core.SpecDir(), cfg))
	if err != nil {
		core.Machinery("read %s: %v", cfg, err)
	}
	var devs []string
	for _, d := range []string{"nil-pointer-on-mapped-path"} {
		if core.OpenDeviation(c.Property, d) {
			devs = append(devs, `"`+d+`"`)
		}
	}
	cfgDyn := strings.Replace(string(cfgText), "Deviations = {}", "Deviations = {"+strings.Join(devs, ", ")+"}", 1)
	res := core.RunTLC(c.Scratch, core.TLCRun{Module: "GenExecTrace", Config: cfg, Workers: 1, Timeout: minutes(30), HeapGB: 8,
		Extra: map[string]string{"trace.ndjson": strings.Join(lines, "\n") + "\n", cfg: cfgDyn},
		OnRaw: func(line string) {
			if m := reHW.FindStringSubmatch(line); m != nil {
				hw, _ = strconv.Atoi(m[1])
				total, _ = strconv.Atoi(m[2])
			}
		}})
	c.AddTLC(res)
	if hw < 0 || total != len(lines) {
		core.Machinery("trace validation did not complete (%s): %s\n%s", cfg, res.Violated, res.Tail)
	}
	if hw == total+1 {
		if !res.OK {
			core.Machinery("trace accepted but TLC reported an error: %s", res.Violated)
		}
		return -1
	}
	// hw is the highest l reached = 1-based index of the first unconsumed line
	return hw - 1
}

// gxJudge validates the whole trace; every run TLC cannot explain is confirmed
// alone and reported, then removed so that the rest is still checked.
func gxJudge(c *core.Ctx, t *gxTrace, cfg string, what string) int {
	lines := t.lines
	runs := t.runs
	rejected := 0
	runOf := func(line int, rs []gxRun) int {
		for i, r := range rs {
			if r.first <= line && line <= r.last {
				return i
			}
		}
		return -1
	}
	for iter := 0; iter < 40; iter++ {
		bad := gxValidate(c, lines, cfg)
		if bad < 0 {
			break
		}
		ri := runOf(bad, runs)
		if ri < 0 {
			core.Machinery("trace validation stopped at line %d which belongs to no run", bad)
		}
		r := runs[ri]
		alone := lines[r.first : r.last+1]
		if b2 := gxValidate(c, alone, cfg); b2 >= 0 {
			rejected++
			name, _ := r.begin["fn"].(string)
			p := t.progs[name]
			desc := name
			if p != nil {
				desc = p.Describe()
			}
			ev := alone[b2]
			if len(ev) > 700 {
				ev = ev[:700] + "..."
			}
			msg := fmt.Sprintf("%s: execution of generated function %s with faults=%v vector=%v is not a behaviour of GenExecTrace; first unexplainable event #%d: %s",
				what, desc, r.begin["faults"], r.begin["vec"], b2, ev)
			cj, _ := json.Marshal(map[string]any{"program": p, "trace": alone, "cfg": cfg, "stopped_at_event": b2})
			path := c.WriteReplay(core.HashID(desc+fmt.Sprint(r.begin["faults"], r.begin["vec"])+cfg), &core.ReplayFile{Family: "genexec", Case: cj, Diff: msg})
			c.Report(gxDeviation(p, r, alone, b2), msg, path)
		}
		// remove the run and continue with the rest
		n := r.last - r.first + 1
		lines = append(append([]string(nil), lines[:r.first]...), lines[r.last+1:]...)
		var nr []gxRun
		for i, x := range runs {
			if i == ri {
				continue
			}
			if x.first > r.last {
				x.first -= n
				x.last -= n
			}
			nr = append(nr, x)
		}
		runs = nr
		if len(runs) == 0 {
			break
		}
	}
	return rejected
}

// gxDeviation names the known deviation a rejected run falls under: predicate on the program and the
// operand values AND on the observed outcome.
func gxDeviation(p *genexec.Prog, r gxRun, trace []string, at int) string {
	// KF-C02-1: a :map source path through a pointer member that is nil at run time panics
	if p == nil || at < 0 || at >= len(trace) {
		return ""
	}
	hasNpath := false
	for _, k := range p.Kinds {
		if k == "npath" {
			hasNpath = true
		}
	}
	src, _ := r.begin["src"].(map[string]any)
	var ev map[string]any
	_ = json.Unmarshal([]byte(trace[at]), &ev)
	if hasNpath && src["Pn"] == "nil" && ev["ev"] == "end" && ev["panicked"] == true &&
		strings.Contains(fmt.Sprint(ev["panic"]), "nil pointer dereference") {
		return "nil-pointer-on-mapped-path"
	}
	return ""
}

// gxCompileSide is C01 over the programs of GenExec: every program the tool accepts must yield a function that
// compiles. Suspects (diagnostics attributed by position while the run-time side is built) are generated again
// alone, in a package of their own, and judged by go build there.
func gxCompileSide(c *core.Ctx) {
	keep := 6
	if c.Thorough() {
		keep = 1
	}
	progs := gxPrograms(c, keep)
	t := gxRecord(c, progs)
	c.AddCount("programs", int64(t.stats["functions"]+len(t.bad)))
	tool := c.EnsureTool()
	root := filepath.Join(c.Scratch, "gxiso")
	core.NewModule(root, "gxm")
	_ = core.WriteFiles(root, map[string]string{"vrt/vrt.go": genexec.VrtSrc})
	reported := 0
	for k, p := range t.bad {
		if reported >= 25 {
			break
		}
		pkg := fmt.Sprintf("iso%03d", k)
		var setup strings.Builder
		setup.WriteString("//go:build convergen\n\npackage " + pkg + "\n\ntype Convergen interface {\n")
		for _, n := range p.Notes() {
			setup.WriteString("\t// " + n + "\n")
		}
		setup.WriteString("\t" + p.Method() + "\n}\n")
		files := map[string]string{pkg + "/setup.go": setup.String(),
			pkg + "/shared.go": "package " + pkg + "\n\nimport \"gxm/vrt\"\n" + genexec.SharedSrc + "\n" + p.Decls()}
		_ = core.WriteFiles(root, files)
		r := tool.Run(core.RunOpts{Dir: filepath.Join(root, pkg), Args: []string{"setup.go"}})
		if r.Exit != 0 || r.TimedOut {
			continue // refused when alone: nothing was emitted
		}
		so, se, code := core.RunCmd(root, core.GoEnv(), "go", "build", "-gcflags=-e", "./"+pkg)
		if code == 0 {
			continue // does not reproduce in isolation: not a verdict
		}
		gen, _ := os.ReadFile(filepath.Join(root, pkg, "setup.gen.go"))
		files[pkg+"/setup.gen.go"] = string(gen)
		js, _ := json.Marshal(p)
		path := c.WriteReplay(core.HashID("gx"+string(js)), &core.ReplayFile{Family: "genexec-compile", Case: js, Files: files, Command: []string{"convergen", "setup.go"},
			Observed: map[string]any{"exit": r.Exit, "go build": firstLines(so+se, 6)}, Expected: "a function that compiles, or a refusal", Diff: firstLine(so + se)})
		c.Report("", fmt.Sprintf("program %s: the tool exits 0 and the generated function does not compile: %s", p.Describe(), firstLine(strings.TrimSpace(strings.TrimPrefix(strings.TrimSpace(so+se), "# gxm/"+pkg)))), path)
		reported++
	}
}

func gxCommon(c *core.Ctx, cfg, what string, staticSideExists bool, nontrivial func(gxRun) bool) {
	keep := 6
	if c.Thorough() {
		keep = 1
	}
	progs := gxPrograms(c, keep)
	t := gxRecord(c, progs)
	if len(t.progs) == 0 && len(t.lines) == 0 && t.stats["functions"] == 0 {
		// nothing could be generated and compiled: the run-time side cannot be judged
		if !staticSideExists {
			core.Machinery("no generated function of the B2 programs could be built (tool rejected %d package(s), %d function(s) do not compile): cannot judge", t.stats["packages_rejected_by_tool"], t.stats["functions_not_compiling"])
		}
		fmt.Fprintf(os.Stderr, "note: no generated function of the B2 programs could be built; only the static side is judged\n")
		c.Set("runtime_side", "not judged: generated functions do not compile")
		return
	}
	if c.Selftest {
		gxSelftest(c, t, cfg)
		return
	}
	rej := gxJudge(c, t, cfg, what)
	if what == "C02" && core.OpenDeviation(c.Property, "nil-pointer-on-mapped-path") {
		// every run the trace specification accepted only through the named deviation is listed as a known finding
		for _, r := range t.runs {
			name, _ := r.begin["fn"].(string)
			for k, l := range t.lines[r.first : r.last+1] {
				if strings.Contains(l, `"ev":"end"`) && strings.Contains(l, `"panicked":true`) {
					if gxDeviation(t.progs[name], r, t.lines[r.first:r.last+1], k) == "nil-pointer-on-mapped-path" {
						c.Report("nil-pointer-on-mapped-path", "known", "")
					}
				}
			}
		}
	}
	for _, r := range t.runs {
		if nontrivial(r) {
			c.Nontrivial(fmt.Sprint(r.begin["fn"], r.begin["faults"], r.begin["vec"]))
		}
	}
	c.AddCount("traces_validated_against_impl", int64(len(t.runs)))
	c.AddCount("evaluations", int64(len(t.runs)))
	c.Set("generated_functions_executed", len(t.progs))
	c.Set("trace_events", len(t.lines))
	c.Set("runs_rejected", rej)
	for k, v := range t.stats {
		c.Set(k, v)
	}
	for _, i := range []int{0, len(t.runs) / 2} {
		r := t.runs[i]
		var evs []any
		for _, l := range t.lines[r.first : r.last+1] {
			var e any
			_ = json.Unmarshal([]byte(l), &e)
			evs = append(evs, e)
		}
		if p := t.progs[fmt.Sprint(r.begin["fn"])]; p != nil {
			c.Sample(map[string]any{"program": p.Describe(), "method": p.Method(), "notations": p.Notes(), "trace": evs})
		}
	}
}

func hasFaults(r gxRun) bool {
	f, _ := r.begin["faults"].([]any)
	return len(f) > 0
}

// C02: values, frame, operands unmodified, no panic.
func C02(c *core.Ctx) {
	if c.Replay != "" {
		replayUnsupported(c)
	}
	gxCommon(c, "GenExecTraceC02.cfg", "C02", false, func(r gxRun) bool { return !hasFaults(r) })
	c.Set("exhaustive", false)
	c.Set("rule", "programs = sets of statement fragments (field, cast, String(), getter, $n argument, literal, converters with value / pointer argument / error, error-returning mapped getter, four slice shapes, nested struct, nested converter with error, pointer field, skip, no match) x style (pointer return, value return, arg) x six hook combinations, printed by TLC from GenExec.tla; the real generated functions are executed with three value vectors (distinct tokens, zeros / nil slices / nil pointers, empty slices) and every recorded trace must be a behaviour of GenExecTrace with the conjuncts values / frame / src / panic enabled. Non-trivial: runs without injected failure")
}

// C07: errors are returned, never swallowed or outrun.
func C07(c *core.Ctx) {
	if c.Replay != "" {
		replayUnsupported(c)
	}
	gxCommon(c, "GenExecTraceC07.cfg", "C07", false, hasFaults)
	c07Hooks(c)
	c.Set("exhaustive", false)
	c.Set("rule", "the programs of C02 with every subset (up to 32) of their error-capable call sites (converters with error at top level and on a nested path, error-returning getter, pre/post hooks with error) armed to fail; TLC accepts a trace only if no call follows a failed one and the returned error is the failing site's sentinel (nil if none failed); plus, statically, every hook shape of Hooks.tla that can return an error (error result, (T, error) results): refused when the method or the shape gives the error nowhere to go, otherwise called with `err =` and an immediate check. Non-trivial: runs with at least one armed failure")
}

// c07Hooks: the hook shapes of Hooks.tla that can return an error. Whether the error of an accepted hook
// is returned at run time is decided by trace validation above; here: a shape whose error has nowhere to go
// must be refused, and every accepted one must receive and check the error.
func c07Hooks(c *core.Ctx) {
	var cases []*b1.Case
	for i, h := range hookEnumerate(c) {
		if h.Cfg.Kind == "twoResults" || h.Cfg.Kind == "errImplResult" || ((h.Cfg.Kind == "ok" || h.Cfg.Kind == "imported" || h.Cfg.Kind == "importedBlank" || h.Cfg.Kind == "funcVar") && h.Cfg.HErr) {
			cases = append(cases, hookConcretise(i, h))
		}
	}
	if len(cases) < 50 {
		core.Machinery("C07: only %d error-capable hook shapes", len(cases))
	}
	st := b1.Run(c, hookOptions("hooks07", false), cases, func(r *b1.Result) b1.Verdict {
		h := r.Case.Data.(*hookCase)
		v := b1.Verdict{Nontrivial: "hook|" + fmt.Sprint(h.Cfg)}
		switch {
		case r.TimedOut || r.Crashed:
			v.What = fmt.Sprintf("%s: the tool crashed or hung: %s", hookDescribe(h), firstLine(r.Stderr))
		case r.Exit != 0:
			v.OK = true // refused: nothing can be swallowed
		case h.Fit.Reject:
			v.What = fmt.Sprintf("%s: the hook can return an error that the generated function cannot pass on, but it was accepted", hookDescribe(h))
		case r.Fn == nil:
			v.What = fmt.Sprintf("%s: no function %s in the output %s", hookDescribe(h), r.Case.Func, r.ParseErr)
		default:
			v.OK = true
			n := 0
			for _, s := range r.Fn.Body {
				if s.Kind != "hook" {
					continue
				}
				n++
				if !s.Err || !s.ErrChecked {
					v.OK = false
					v.What = fmt.Sprintf("%s: the hook returns an error, but the call `%s(%s)` does not receive and check it", hookDescribe(h), s.Call, strings.Join(s.Args, ", "))
				}
			}
			if n == 0 {
				v.OK = false
				v.What = fmt.Sprintf("%s: the accepted hook is never called", hookDescribe(h))
			}
		}
		return v
	})
	c.Set("error_capable_hook_shapes", st.Cases)
}

// gxSelftest demonstrates the binding: the recorded trace is accepted, and it
// is rejected after (a) one recorded value is corrupted, (b) one call event is
// removed, (c) a call event is duplicated after a failing call.
func gxSelftest(c *core.Ctx, t *gxTrace, cfg string) {
	// use the all-properties configuration so that every corruption is visible
	cfg = "GenExecTraceAll.cfg"
	if bad := gxValidate(c, t.lines, cfg); bad >= 0 {
		fmt.Printf("selftest: the unmodified trace is rejected at line %d - fix that first\n", bad)
		return
	}
	fmt.Printf("selftest: unmodified trace of %d events accepted\n", len(t.lines))
	// (a) corrupt one value of an end event
	mut := append([]string(nil), t.lines...)
	for i, l := range mut {
		if strings.Contains(l, `"ev":"end"`) && strings.Contains(l, `"Ffield":"`) && strings.Contains(l, `"err":"nil"`) {
			mut[i] = strings.Replace(l, `"Ffield":"`, `"Ffield":"9`, 1)
			bad := gxValidate(c, mut, cfg)
			fmt.Printf("selftest: corrupted value of dst.Ffield in event %d -> rejected at line %d (expected %d)\n", i, bad, i)
			if bad != i {
				core.Machinery("binding self-test failed: corrupted value not rejected at its event")
			}
			break
		}
	}
	// (b) remove one call event of a run without faults
	for i, l := range t.lines {
		if strings.Contains(l, `"ev":"call"`) && strings.Contains(l, `"site":"CvV"`) {
			mut = append(append([]string(nil), t.lines[:i]...), t.lines[i+1:]...)
			bad := gxValidate(c, mut, cfg)
			fmt.Printf("selftest: removed call event %d -> rejected at line %d\n", i, bad)
			if bad < 0 {
				core.Machinery("binding self-test failed: dropped call event not rejected")
			}
			break
		}
	}
	// (c) a call after a failing call
	for i, l := range t.lines {
		if strings.Contains(l, `"ev":"call"`) && strings.Contains(l, `"fail":true`) {
			extra := `{"ev":"call","fail":false,"site":"S"}`
			mut = append(append(append([]string(nil), t.lines[:i+1]...), extra), t.lines[i+1:]...)
			bad := gxValidate(c, mut, cfg)
			fmt.Printf("selftest: inserted a call after the failing call at %d -> rejected at line %d (expected %d)\n", i, bad, i+1)
			if bad != i+1 {
				core.Machinery("binding self-test failed: call after failure not rejected")
			}
			break
		}
	}
	fmt.Println("selftest: binding rejects all three corruptions")
}
