package checks

import (
	"encoding/json"
	"os"

	"verif/internal/b1"
	"verif/internal/core"
)

// loadReplay reads the replay file named on the command line.
func loadReplay(c *core.Ctx) *core.ReplayFile {
	b, err := os.ReadFile(c.Replay)
	if err != nil {
		core.Machinery("cannot read replay file: %v", err)
	}
	var rf core.ReplayFile
	if err := json.Unmarshal(b, &rf); err != nil {
		core.Machinery("replay file is not valid: %v", err)
	}
	return &rf
}

// replayB1 re-judges the single case of a replay file of a case-replay family
// against the tool rebuilt from /repo. It returns false if the family is not
// one it knows.
func replayB1(c *core.Ctx, judgeMF, judgeSig, judgeHook, judgeM func(*b1.Result) b1.Verdict, compile bool) bool {
	rf := loadReplay(c)
	switch rf.Family {
	case "matchfield", "matchfield-slices":
		if judgeMF == nil {
			return false
		}
		var m mfCase
		if err := json.Unmarshal(rf.Case, &m); err != nil {
			core.Machinery("replay case: %v", err)
		}
		b1.Run(c, b1.Options{Name: "replay", PerFile: 1, Family: rf.Family, Compile: compile}, []*b1.Case{mfConcretise(0, &m)}, judgeMF)
	case "signature":
		if judgeSig == nil {
			return false
		}
		var s sigCase
		if err := json.Unmarshal(rf.Case, &s); err != nil {
			core.Machinery("replay case: %v", err)
		}
		rc := []*b1.Case{sigConcretise(0, &s)}
		b1.Run(c, sigOptions("replay", 1, compile, rc), rc, judgeSig)
	case "hooks":
		if judgeHook == nil {
			return false
		}
		var h hookCase
		if err := json.Unmarshal(rf.Case, &h); err != nil {
			core.Machinery("replay case: %v", err)
		}
		b1.Run(c, hookOptions("replay", compile), []*b1.Case{hookConcretise(0, &h)}, judgeHook)
	case "matching":
		if judgeM == nil {
			return false
		}
		var m wCase
		if err := json.Unmarshal(rf.Case, &m); err != nil {
			core.Machinery("replay case: %v", err)
		}
		o := mOptions("replay", compile)
		o.PerFile = 1
		b1.Run(c, o, []*b1.Case{mConcretise(0, &m)}, judgeM)
	default:
		return false
	}
	return true
}

func replayUnsupported(c *core.Ctx) {
	rf := loadReplay(c)
	core.Machinery("re-judging a single %q case is not implemented; the replay file holds the concrete files, the command and the expected outcome - re-run the check itself (same VERIF_SEED) to re-judge it", rf.Family)
}
