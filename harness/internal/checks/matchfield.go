package checks

import (
	"encoding/json"
	"fmt"
	"hash/fnv"
	"sort"
	"strings"

	"verif/internal/b1"
	"verif/internal/core"
	"verif/internal/project"
	"verif/internal/universe"
)

// ---- the one-field matching family (spec/MatchField.tla), used by C04, C16 (static) and C01.

type mfToggles struct {
	Case     bool `json:"case"`
	Getter   bool `json:"getter"`
	Stringer bool `json:"stringer"`
	Typecast bool `json:"typecast"`
}
type mfCfg struct {
	Dt   string    `json:"dt"`
	St   string    `json:"st"`
	Nm   string    `json:"nm"`
	Ck   string    `json:"ck"`
	Tg   mfToggles `json:"tg"`
	Rule string    `json:"rule"`
}
type outcome struct {
	K string `json:"k"`
	T string `json:"t"`
	M string `json:"m"`
}
type mfCase struct {
	Cfg     mfCfg     `json:"cfg"`
	Allowed []outcome `json:"allowed"`
}

func typeTableExtra() map[string]string {
	u, err := universe.Check()
	if err != nil {
		core.Machinery("type alphabet does not type-check: %v", err)
	}
	return map[string]string{"TypeTable.tla": u.Table()}
}

func hashMod(s string, seed int64, mod int) int {
	h := fnv.New64a()
	fmt.Fprintf(h, "%d|%s", seed, s)
	// the low bits of FNV-1a are poorly mixed (the parity of similar JSON texts is nearly constant): fold
	x := h.Sum64()
	x ^= x >> 29
	x *= 0x9E3779B97F4A7C15
	x ^= x >> 32
	return int(x % uint64(mod))
}

// mfEnumerate runs TLC on MCMatchField and returns the cases kept for this
// tier: everything in thorough, a seeded 1-in-k sample plus a fixed core in quick.
func mfEnumerate(c *core.Ctx, keepOneIn int, filter func(*mfCase) bool) []*mfCase {
	var cases []*mfCase
	total := 0
	res := core.MustTLC(c.Scratch, core.TLCRun{Module: "MCMatchField", Config: "MCMatchField.cfg", Extra: typeTableExtra(), Tags: []string{"CASE"},
		Workers: 12, Timeout: minutes(30), HeapGB: 8,
		OnLine: func(tag, js string) {
			total++
			var m mfCase
			if err := json.Unmarshal([]byte(js), &m); err != nil {
				core.Machinery("bad CASE line: %v: %s", err, js)
			}
			if filter != nil && !filter(&m) {
				return
			}
			core1 := mfCore(&m)
			if keepOneIn > 1 && !core1 && hashMod(js, c.Seed, keepOneIn) != 0 {
				return
			}
			cases = append(cases, &m)
		}})
	c.AddTLC(res)
	c.Set("tlc_cases_total", total)
	if len(cases) == 0 {
		core.Machinery("MCMatchField emitted no cases")
	}
	sort.Slice(cases, func(i, j int) bool { return mfKey(cases[i]) < mfKey(cases[j]) })
	return cases
}

func mfKey(m *mfCase) string {
	return fmt.Sprintf("%s|%s|%s|%s|%v|%s", m.Cfg.Dt, m.Cfg.St, m.Cfg.Nm, m.Cfg.Ck, m.Cfg.Tg, m.Cfg.Rule)
}

// mfCore is the fixed core of the quick tier: with all toggles on and with all
// toggles off, same name, every type pair and candidate kind.
func mfCore(m *mfCase) bool {
	t := m.Cfg.Tg
	allOn := !t.Case && t.Getter && t.Stringer && t.Typecast
	allOff := t.Case && !t.Getter && !t.Stringer && !t.Typecast
	return m.Cfg.Rule == "name" && m.Cfg.Nm == "same" && (allOn || (allOff && m.Cfg.Ck == "field"))
}

func mfNotes(t mfToggles, rule string) []string {
	var n []string
	if !t.Case {
		n = append(n, ":case:off")
	}
	if t.Getter {
		n = append(n, ":getter")
	}
	if t.Stringer {
		n = append(n, ":stringer")
	}
	if t.Typecast {
		n = append(n, ":typecast")
	}
	if rule == "none" {
		n = append(n, ":match none")
	}
	return n
}

// The field names of the one-field family. The specification calls them Fa and FA; the identifiers really used
// differ in case by a letter whose two cases have different UTF-8 lengths (sharp s), so that comparing names
// "under case folding" cannot be done on bytes - and by a letter with TWO lower-case forms (final sigma), so that it
// cannot be done by lower-casing both sides either.
const (
	mfDstField     = "Fa\u00df\u03c2"
	mfCaseVarField = "FA\u1e9e\u03a3"
)

// mfSymbolic maps the identifiers really used back to the specification's names.
func mfSymbolic(s string) string {
	return strings.ReplaceAll(strings.ReplaceAll(s, mfCaseVarField, "FA"), mfDstField, "Fa")
}

func mfConcretise(k int, m *mfCase) *b1.Case {
	js, _ := json.Marshal(m)
	id := core.HashID(string(js))
	srcName := map[string]string{"same": mfDstField, "casevar": mfCaseVarField, "other": "Gz"}[m.Cfg.Nm]
	st, dt := universe.ExprOf(m.Cfg.St), universe.ExprOf(m.Cfg.Dt)
	var d strings.Builder
	switch m.Cfg.Ck {
	case "field":
		fmt.Fprintf(&d, "type S%d struct {\n\t%s %s\n}\n", k, srcName, st)
	case "getterV":
		fmt.Fprintf(&d, "type S%d struct {\n\tgv %s\n}\n\nfunc (s S%d) %s() %s { return s.gv }\n", k, st, k, srcName, st)
	case "getterP":
		fmt.Fprintf(&d, "type S%d struct {\n\tgv %s\n}\n\nfunc (s *S%d) %s() %s { return s.gv }\n", k, st, k, srcName, st)
	}
	fmt.Fprintf(&d, "\ntype D%d struct {\n\t%s %s\n}\n", k, mfDstField, dt)
	notes := mfNotes(m.Cfg.Tg, m.Cfg.Rule)
	// half of the :typecast methods get the toggle from their interface: a converter interface of their own that
	// carries `:typecast` and sorts before interface Convergen, whose other methods must stay without it
	group := ""
	var groupNotes []string
	if m.Cfg.Tg.Typecast && hashMod(id, 13, 2) == 0 {
		group, groupNotes = "AaTypecast", []string{":typecast"}
		var kept []string
		for _, n := range notes {
			if n != ":typecast" {
				kept = append(kept, n)
			}
		}
		notes = kept
	}
	return &b1.Case{
		ID: id, JSON: js, Func: fmt.Sprintf("M%d", k), Style: "return",
		Decls: d.String(), Notes: notes, Group: group, GroupNotes: groupNotes,
		Method: fmt.Sprintf("M%d(*S%d) *D%d", k, k, k),
		Data:   m,
	}
}

// mfOptions are the run options of the one-field family: cases are mixed within the files, and a suspect that is
// re-run in isolation keeps a neighbour in the other interface (interface-level :typecast, see mfConcretise).
func mfOptions(name, family string, compile bool, cases []*b1.Case) b1.Options {
	sort.SliceStable(cases, func(i, j int) bool { return cases[i].ID < cases[j].ID })
	var ctxGrouped, ctxPlain *b1.Case
	for _, cs := range cases {
		// any case will do as a neighbour: the family has no rejected programs (no match is an outcome, not a failure)
		if cs.Group != "" && ctxGrouped == nil {
			ctxGrouped = cs
		}
		if cs.Group == "" && ctxPlain == nil {
			ctxPlain = cs
		}
	}
	iso := func(cs *b1.Case) []*b1.Case {
		if cs.Group == "" && ctxGrouped != nil && ctxGrouped != cs {
			return []*b1.Case{ctxGrouped}
		}
		if cs.Group != "" && ctxPlain != nil && ctxPlain != cs {
			return []*b1.Case{ctxPlain}
		}
		return nil
	}
	return b1.Options{Name: name, PerFile: 80, Family: family, Compile: compile, IsoContext: iso}
}

// fieldOutcome projects what a generated function does to destination path
// `path` (e.g. "DST.Fa") into the specification's outcome vocabulary.
// It returns the outcome and a description of anomalies (field mentioned
// twice, mixed lines, not mentioned at all).
func fieldOutcome(fn *project.Func, path string) (outcome, string) {
	var own, below []project.Stmt
	for _, s := range fn.Body {
		switch s.Kind {
		case "assign", "slice", "skip", "nomatch":
			if s.LHS == path {
				own = append(own, s)
			} else if strings.HasPrefix(s.LHS, path+".") {
				below = append(below, s)
			}
		case "alloc":
			if s.LHS == path || strings.HasPrefix(s.LHS, path+".") {
				below = append(below, s)
			}
		}
	}
	switch {
	case len(own) == 0 && len(below) == 0:
		return outcome{K: "none"}, "the destination field is not mentioned at all"
	case len(own) > 1:
		return outcome{K: "multi"}, fmt.Sprintf("the destination field is covered %d times", len(own))
	case len(own) == 1 && len(below) > 0:
		return outcome{K: "multi"}, "the destination field is covered as a whole and member-wise"
	case len(own) == 0:
		return outcome{K: "nest"}, ""
	}
	s := own[0]
	switch s.Kind {
	case "skip":
		return outcome{K: "skip"}, ""
	case "nomatch":
		return outcome{K: "nomatch"}, ""
	case "slice":
		return outcome{K: "slice", T: s.Term, M: s.Mode}, ""
	}
	k := "assign"
	switch {
	case strings.HasPrefix(s.Term, "cast["):
		k = "cast"
	case strings.HasSuffix(s.Term, ".String()"):
		k = "str"
	}
	return outcome{K: k, T: s.Term}, ""
}

func outcomeIn(o outcome, allowed []outcome) bool {
	for _, a := range allowed {
		if a.K != o.K {
			continue
		}
		if o.K == "nest" || o.K == "nomatch" || o.K == "skip" {
			return true
		}
		if normTerm(a.T) == normTerm(o.T) && a.M == o.M {
			return true
		}
		// literal text: compared as text, however the projector classified the expression
		if strings.HasPrefix(a.T, "lit[") && litText(a.T) == litText(o.T) {
			return true
		}
	}
	return false
}

// normTerm removes insignificant spaces of type expressions inside cast[...].
func normTerm(t string) string {
	t = strings.ReplaceAll(strings.ReplaceAll(t, " ", ""), "interface{}", "any")
	// literal text that is not a basic literal is projected as expr[...]: same class as lit[...]
	if strings.HasPrefix(t, "expr[") {
		t = "lit[" + strings.TrimPrefix(t, "expr[")
	}
	return t
}

func litText(t string) string {
	t = normTerm(t)
	if strings.HasPrefix(t, "lit[") && strings.HasSuffix(t, "]") {
		return t[4 : len(t)-1]
	}
	return t
}

func fmtAllowed(a []outcome) string {
	var p []string
	for _, o := range a {
		s := o.K
		if o.T != "" {
			s += " " + o.T
		}
		if o.M != "" {
			s += " (" + o.M + ")"
		}
		p = append(p, s)
	}
	sort.Strings(p)
	return "{" + strings.Join(p, " | ") + "}"
}

func mfDescribe(m *mfCase) string {
	return fmt.Sprintf("dst Fa %s <- src %s %s (%s) [%s]", m.Cfg.Dt, map[string]string{"same": "Fa", "casevar": "FA", "other": "Gz"}[m.Cfg.Nm],
		m.Cfg.St, m.Cfg.Ck, strings.Join(mfNotes(m.Cfg.Tg, m.Cfg.Rule), " "))
}

// matchClass abstracts an outcome to what C04 speaks about: was the field
// matched, from which operand, through which opted-in conversion. Rendering
// details (how a cast is spelled, copy vs loop) belong to C01 / C16.
func matchClass(o outcome) (class, operand string) {
	switch o.K {
	case "nomatch", "nest", "skip", "none", "multi", "fail":
		return o.K, ""
	case "slice":
		if o.M == "castloop" {
			return "cast", normTerm(o.T)
		}
		return "plain", normTerm(o.T)
	}
	t := normTerm(o.T)
	if i := strings.Index(t, "cast["); i >= 0 {
		// cast[T](X) possibly with a stray prefix: the operand is X
		rest := t[i:]
		if k := strings.Index(rest, "]("); k >= 0 && strings.HasSuffix(rest, ")") {
			return "cast", rest[k+2 : len(rest)-1]
		}
		return "cast", t
	}
	if strings.HasSuffix(t, ".String()") {
		return "str", strings.TrimSuffix(t, ".String()")
	}
	return "plain", t
}

func classIn(o outcome, allowed []outcome) bool {
	c, op := matchClass(o)
	for _, a := range allowed {
		ac, aop := matchClass(a)
		if ac == c && (aop == op || c == "nest" || c == "nomatch") {
			return true
		}
	}
	return false
}

func mfObserve(r *b1.Result) (o outcome, what string, ok bool) {
	m := r.Case.Data.(*mfCase)
	if r.TimedOut || r.Crashed || r.Exit != 0 {
		return outcome{K: "fail"}, fmt.Sprintf("%s: the tool failed (exit %d): %s; permitted outcomes %s", mfDescribe(m), r.Exit, firstLine(r.Stderr), fmtAllowed(m.Allowed)), false
	}
	if r.Fn == nil {
		return outcome{K: "fail"}, fmt.Sprintf("%s: no function %s in the output (%s)", mfDescribe(m), r.Case.Func, r.ParseErr), false
	}
	o, anomaly := fieldOutcome(r.Fn, "DST."+mfDstField)
	o.T = mfSymbolic(o.T)
	if anomaly != "" {
		return o, fmt.Sprintf("%s: %s", mfDescribe(m), mfSymbolic(anomaly)), false
	}
	return o, "", true
}

// mfJudge is C04's judgement of one one-field case: the class of the
// generated outcome (matched or not, from which operand, through which
// conversion) must be among the classes the specification permits.
func mfJudge(r *b1.Result) b1.Verdict {
	m := r.Case.Data.(*mfCase)
	v := b1.Verdict{}
	if !(len(m.Allowed) == 1 && m.Allowed[0].K == "nomatch") {
		v.Nontrivial = fmt.Sprintf("%s|%s|%s|%v", m.Cfg.Dt, m.Cfg.St, m.Cfg.Ck, m.Cfg.Tg)
	}
	o, what, ok := mfObserve(r)
	if !ok {
		v.What = what
		v.Deviation = mfDeviation(m, o, r)
		return v
	}
	if classIn(o, m.Allowed) {
		v.OK = true
		return v
	}
	v.What = fmt.Sprintf("%s: generated %s, the specification permits %s", mfDescribe(m), fmtAllowed([]outcome{o}), fmtAllowed(m.Allowed))
	v.Deviation = mfDeviation(m, o, r)
	return v
}

// mfIsSlicePair selects the cases C16 speaks about.
func mfIsSlicePair(m *mfCase) bool {
	for _, a := range m.Allowed {
		if a.K == "slice" {
			return true
		}
	}
	return false
}

// mfJudgeC16 is C16's static judgement: where the specification permits a
// slice copy, the generated code is one of the permitted fresh-copy shapes
// (never a plain assignment of the slice value), or gives up where permitted.
func mfJudgeC16(r *b1.Result) b1.Verdict {
	m := r.Case.Data.(*mfCase)
	v := b1.Verdict{Nontrivial: fmt.Sprintf("%s|%s|%s|%v", m.Cfg.Dt, m.Cfg.St, m.Cfg.Ck, m.Cfg.Tg.Typecast)}
	o, what, ok := mfObserve(r)
	if !ok {
		v.What = what
		return v
	}
	if outcomeIn(o, m.Allowed) {
		v.OK = true
		return v
	}
	// Statically only two things are certain: a plain assignment of the source slice shares its storage, and
	// `no match` gives up where a copy is required. Any other statement shape may well be a correct fresh
	// copy written differently; whether it is, is decided on the run-time side (trace validation).
	src := ""
	for _, a := range m.Allowed {
		if a.K == "slice" {
			src = a.T
		}
	}
	aliasing := o.K == "assign" && normTerm(o.T) == normTerm(src)
	gaveUp := o.K == "nomatch"
	if !aliasing && !gaveUp {
		v.OK = true
		return v
	}
	v.What = fmt.Sprintf("%s: generated %s, the specification permits %s", mfDescribe(m), fmtAllowed([]outcome{o}), fmtAllowed(m.Allowed))
	v.Deviation = mfDeviation(m, o, r)
	return v
}

// compileJudge is C01's judgement of any B1 result: a successful run's output
// is gofmt-clean and the function compiles in its package.
func compileJudge(describe func(*b1.Result) string) func(*b1.Result) b1.Verdict {
	return func(r *b1.Result) b1.Verdict {
		v := b1.Verdict{}
		if r.TimedOut || r.Crashed || r.Exit != 0 {
			v.OK = true // failing is permitted by C01 (judged by C03/C14)
			return v
		}
		if r.Fn != nil && len(r.Fn.Body) > 2 {
			v.Nontrivial = r.Case.ID
		}
		switch {
		case r.ParseErr != "":
			v.What = fmt.Sprintf("%s: the output is not parseable Go: %s", describe(r), r.ParseErr)
		case r.Unformatted && r.Isolated:
			v.What = fmt.Sprintf("%s: the output is not gofmt-clean", describe(r))
		case r.Unformatted:
			v.What = fmt.Sprintf("%s: the output file of this pack is not gofmt-clean", describe(r))
		case len(r.CompileErrs) > 0:
			v.What = fmt.Sprintf("%s: the generated code does not compile: %s", describe(r), strings.Join(uniq(r.CompileErrs, 3), " | "))
		default:
			v.OK = true
		}
		return v
	}
}

func uniq(xs []string, n int) []string {
	seen := map[string]bool{}
	var out []string
	for _, x := range xs {
		if !seen[x] {
			seen[x] = true
			out = append(out, x)
		}
		if len(out) == n {
			break
		}
	}
	return out
}

// mfDeviation names the known deviation a mismatch falls under (predicate on
// the case AND the observed outcome), or "".
func mfDeviation(m *mfCase, o outcome, r *b1.Result) string {
	return ""
}

// C04 runs the one-field matrix (the struct-level walk is added by matchstruct.go).
func C04(c *core.Ctx) {
	if c.Replay != "" {
		if !replayB1(c, mfJudge, nil, nil, mJudge(func(v *mVerdicts, m *wCase) ([]string, string) {
			var p []string
			if v.failed != "" {
				p = append(p, v.failed)
			}
			return append(p, v.defaults...), ""
		}), false) {
			replayUnsupported(c)
		}
		return
	}
	keep := 6
	if c.Thorough() {
		keep = 1
	}
	ms := mfEnumerate(c, keep, nil)
	var cases []*b1.Case
	for i, m := range ms {
		cases = append(cases, mfConcretise(i, m))
	}
	st := b1.Run(c, mfOptions("mf", "matchfield", false, cases), cases, mfJudge)
	c.Set("matchfield_cases", st.Cases)
	c.Set("matchfield_files", st.Files)
	// struct level: default matching inside nested / embedded / imported structs (programs without notations)
	_, wc := mCases(c, 1, func(m *wCase) bool { return !mHasNotes(m) })
	st2 := b1.Run(c, mOptions("m04", false), wc, mJudge(func(v *mVerdicts, m *wCase) ([]string, string) {
		var p []string
		if v.failed != "" {
			p = append(p, v.failed)
		}
		p = append(p, v.defaults...)
		return p, mDescribe(m)
	}))
	c.Set("struct_level_cases", st2.Cases)
	c.Set("exhaustive", c.Thorough())
	for i := 0; i < len(ms) && i < 3; i++ {
		j := (i*7919 + 13) % len(ms)
		c.Sample(map[string]any{"cfg": ms[j].Cfg, "permitted": ms[j].Allowed, "method": cases[j].Method, "notations": cases[j].Notes, "types": cases[j].Decls})
	}
	c.Set("rule", "one destination field x one same/case-variant/differently named candidate (field, value-receiver getter, pointer-receiver getter) over all pairs of the 40-type alphabet x 2^4 toggles x match rule, enumerated by TLC (MatchField.tla) with the set of permitted outcomes; each is concretised, run through the tool and the projected outcome must be in the set. Non-trivial: permitted set is not {nomatch}; distinct by (types, candidate kind, toggles)")
}

// c16Static runs the slice cases of the one-field family (static side of C16).
func c16Static(c *core.Ctx) {
	ms := mfEnumerate(c, 1, func(m *mfCase) bool { return mfIsSlicePair(m) })
	var cases []*b1.Case
	for i, m := range ms {
		cases = append(cases, mfConcretise(i, m))
	}
	st := b1.Run(c, mfOptions("mfslice", "matchfield-slices", false, cases), cases, mfJudgeC16)
	c.Set("static_slice_cases", st.Cases)
	// the other side: pairs of slice types for which the specification permits NO copy (element types neither
	// assignable nor - under :typecast - convertible): no element-wise statement may appear, whatever other
	// toggles (:stringer ...) are on - elements are converted under :typecast only
	isSlice := func(id string) bool { return id == "Tags" || strings.HasPrefix(universe.ExprOf(id), "[]") }
	neg := mfEnumerate(c, 1, func(m *mfCase) bool { return isSlice(m.Cfg.Dt) && isSlice(m.Cfg.St) && !mfIsSlicePair(m) })
	var ncases []*b1.Case
	for i, m := range neg {
		ncases = append(ncases, mfConcretise(i, m))
	}
	st2 := b1.Run(c, mfOptions("mfsliceneg", "matchfield-slices", false, ncases), ncases, func(r *b1.Result) b1.Verdict {
		m := r.Case.Data.(*mfCase)
		v := b1.Verdict{Nontrivial: fmt.Sprintf("neg|%s|%s|%s|%v", m.Cfg.Dt, m.Cfg.St, m.Cfg.Ck, m.Cfg.Tg.Typecast)}
		o, what, ok := mfObserve(r)
		if !ok {
			v.What = what
			return v
		}
		if o.K == "slice" || (o.K != "nomatch" && !outcomeIn(o, m.Allowed)) {
			v.What = fmt.Sprintf("%s: generated %s - the element types permit no copy here (typecast %v), the specification permits %s", mfDescribe(m), fmtAllowed([]outcome{o}), m.Cfg.Tg.Typecast, fmtAllowed(m.Allowed))
			return v
		}
		v.OK = true
		return v
	})
	c.Set("static_slice_cases_without_copy", st2.Cases)
	if len(ms) > 0 {
		j := len(ms) / 2
		c.Sample(map[string]any{"cfg": ms[j].Cfg, "permitted": ms[j].Allowed, "types": cases[j].Decls})
	}
}

// c01MatchField runs the one-field family under the compile judge.
func c01MatchField(c *core.Ctx, keep int) {
	ms := mfEnumerate(c, keep, func(m *mfCase) bool {
		// cases that cannot produce an assignment are all alike for the compiler: keep few of them
		if len(m.Allowed) == 1 && m.Allowed[0].K == "nomatch" {
			return hashMod(mfKey(m), c.Seed, 40) == 0
		}
		return true
	})
	var cases []*b1.Case
	for i, m := range ms {
		cases = append(cases, mfConcretise(i, m))
	}
	st := b1.Run(c, mfOptions("mfc01", "matchfield", true, cases), cases,
		compileJudge(func(r *b1.Result) string { return mfDescribe(r.Case.Data.(*mfCase)) }))
	c.AddCount("programs", int64(st.Functions))
	if len(ms) > 0 {
		j := len(ms) / 3
		c.Sample(map[string]any{"family": "matchfield", "cfg": ms[j].Cfg, "method": cases[j].Method, "notations": cases[j].Notes, "types": cases[j].Decls})
	}
}

// C16 (static side; the run-time side is added by genexec.go).
func C16(c *core.Ctx) {
	if c.Replay != "" {
		if !replayB1(c, mfJudgeC16, nil, nil, nil, false) {
			replayUnsupported(c)
		}
		return
	}
	c16Static(c)
	// run-time side: fresh storage, nil stays nil, isolation after the source is overwritten
	gxCommon(c, "GenExecTraceC16.cfg", "C16", true, func(r gxRun) bool {
		ks, _ := r.begin["kinds"].([]any)
		for _, k := range ks {
			if s, _ := k.(string); strings.HasPrefix(s, "sl") {
				return true
			}
		}
		return false
	})
	c.Set("exhaustive", true)
	c.Set("rule", "every (destination, candidate) pair of the type alphabet for which the specification permits a slice copy (identical / assignable / convertible element types, defined slice types) x candidate kind x toggles; the generated statement must be a permitted fresh-copy shape; distinct by (types, kind, typecast)")
}

// C01: every successfully generated file is gofmt-clean and compiles.
func C01(c *core.Ctx) {
	if c.Replay != "" {
		c.Ev.Level = "translation_validation"
		if !replayB1(c, compileJudge(func(r *b1.Result) string { return r.Case.ID }), compileJudge(func(r *b1.Result) string { return r.Case.ID }), compileJudge(func(r *b1.Result) string { return r.Case.ID }), compileJudge(func(r *b1.Result) string { return r.Case.ID }), true) {
			replayUnsupported(c)
		}
		return
	}
	c.Ev.Level = "translation_validation"
	keep := 4
	if c.Thorough() {
		keep = 1
	}
	c01MatchField(c, keep)
	// signature and hook families: every accepted combination must compile
	sc := sigCases(c)
	st := b1.Run(c, sigOptions("sigc01", 40, true, sc), sc,
		compileJudge(func(r *b1.Result) string { return "signature " + sigDescribe(r.Case.Data.(*sigCase)) }))
	c.AddCount("programs", int64(st.Functions))
	hc := hookCases(c)
	st = b1.Run(c, hookOptions("hookc01", true), hc,
		compileJudge(func(r *b1.Result) string { return hookDescribe(r.Case.Data.(*hookCase)) }))
	c.AddCount("programs", int64(st.Functions))
	// struct-level walk with notations
	wm, wc := mCases(c, 3, nil)
	st = b1.Run(c, mOptions("m01", true), wc,
		compileJudge(func(r *b1.Result) string { return mDescribe(r.Case.Data.(*wCase)) }))
	c.AddCount("programs", int64(st.Functions))
	// the programs of GenExec (statement fragments x styles incl. operands named like the helpers of generated code x hooks)
	gxCompileSide(c)
	c.Sample(map[string]any{"family": "matching", "program": mDescribe(wm[len(wm)/2]), "notations": wc[len(wc)/2].Notes})
	c.Sample(map[string]any{"family": "hooks", "method": hc[len(hc)/2].Method, "notations": hc[len(hc)/2].Notes, "decls": hc[len(hc)/2].Decls})
	c.Set("disagreements_checked", c.ViolationCount())
	c.Set("exhaustive", false)
	c.Set("rule", "programs = generated functions whose package was compiled by the Go toolchain (ordinary build, setup file excluded by its tag, output included) and whose file was checked with gofmt -l; the program space is enumerated by TLC from the matching/signature/hook models; non-trivial = functions with at least one statement besides allocation and return")
}
