package core

import (
	"bytes"
	"context"
	"os"
	"os/exec"
	"path/filepath"
	"strings"
	"time"
)

// BuildTag is the guard of verification-only hooks inside /repo (MANIFEST.hooks.guard).
const BuildTag = "verif"

// Tool is the convergen binary built from /repo's current working tree.
type Tool struct {
	Path string
}

// BuildTool compiles /repo's main package into scratch. A build failure of the
// implementation itself is a machinery failure (nothing can be judged).
func BuildTool(scratch string) *Tool {
	out := filepath.Join(scratch, "bin", "convergen")
	_ = os.MkdirAll(filepath.Dir(out), 0o755)
	_, se, code := RunCmd(RepoDir, GoEnv(), "go", "build", "-tags", BuildTag, "-o", out, ".")
	if code != 0 {
		Machinery("cannot build %s: %s", RepoDir, se)
	}
	return &Tool{Path: out}
}

// RunResult is what can be observed of one process run.
type RunResult struct {
	Exit     int
	Stdout   string
	Stderr   string
	TimedOut bool
	Elapsed  time.Duration
}

// Crashed reports a panic / runtime crash rather than an orderly exit.
func (r *RunResult) Crashed() bool {
	if r.TimedOut {
		return false
	}
	if r.Exit != 0 && r.Exit != 1 {
		return true
	}
	return strings.Contains(r.Stderr, "panic:") || strings.Contains(r.Stderr, "goroutine ") ||
		strings.Contains(r.Stderr, "fatal error:")
}

// RunOpts parameterises one run of the tool.
type RunOpts struct {
	Dir     string   // working directory
	Args    []string // flags and input path
	Env     []string // extra environment (KEY=VALUE), on top of the offline Go env
	Timeout time.Duration
	// StdoutTo, if set, is a path opened for writing and given to the tool as its standard output
	// (e.g. /dev/full: every write fails); RunResult.Stdout stays empty then.
	StdoutTo string
}

// Run starts the tool once.
func (t *Tool) Run(o RunOpts) *RunResult {
	to := o.Timeout
	if to == 0 {
		to = 60 * time.Second
	}
	ctx, cancel := context.WithTimeout(context.Background(), to)
	defer cancel()
	cmd := exec.CommandContext(ctx, t.Path, o.Args...)
	cmd.Dir = o.Dir
	cmd.Env = GoEnv(o.Env...)
	var so, se bytes.Buffer
	cmd.Stdout = &so
	if o.StdoutTo != "" {
		f, err := os.OpenFile(o.StdoutTo, os.O_WRONLY, 0)
		if err != nil {
			Machinery("cannot open %s as standard output: %v", o.StdoutTo, err)
		}
		defer f.Close()
		cmd.Stdout = f
	}
	cmd.Stderr = &se
	start := time.Now()
	err := cmd.Run()
	res := &RunResult{Stdout: so.String(), Stderr: se.String(), Elapsed: time.Since(start)}
	if ctx.Err() == context.DeadlineExceeded {
		res.TimedOut = true
		res.Exit = -1
		return res
	}
	if err != nil {
		if ee, ok := err.(*exec.ExitError); ok {
			res.Exit = ee.ExitCode()
		} else {
			Machinery("cannot start tool: %v", err)
		}
	}
	return res
}

// Module is a scratch Go module holding generated packages.
type Module struct {
	Root string
	Path string // module path
}

// NewModule creates a scratch module. Generated programs import only packages
// of this module (and error-free tiny stdlib packages), so no go.sum is needed.
func NewModule(root, modPath string) *Module {
	_ = os.MkdirAll(root, 0o755)
	_ = os.WriteFile(filepath.Join(root, "go.mod"), []byte("module "+modPath+"\n\ngo 1.19\n"), 0o644)
	return &Module{Root: root, Path: modPath}
}

// GoBuild type-checks and compiles packages of a module ("./..." or one dir).
// tags may be empty. Returns compiler output and success.
func (m *Module) GoBuild(tags string, pattern string) (string, bool) {
	args := []string{"build", "-gcflags=-e"}
	if tags != "" {
		args = append(args, "-tags", tags)
	}
	args = append(args, pattern)
	so, se, code := RunCmd(m.Root, GoEnv(), "go", args...)
	return so + se, code == 0
}

// GoVet runs go vet (type-check incl. test-free packages) with tags.
func (m *Module) GoVet(tags string, pattern string) (string, bool) {
	args := []string{"vet"}
	if tags != "" {
		args = append(args, "-tags", tags)
	}
	args = append(args, pattern)
	so, se, code := RunCmd(m.Root, GoEnv(), "go", args...)
	return so + se, code == 0
}

// Gofmt returns the list of files under dir that gofmt would change.
func Gofmt(paths ...string) (string, bool) {
	args := append([]string{"-l"}, paths...)
	so, se, code := RunCmd("", nil, "gofmt", args...)
	return strings.TrimSpace(so + se), code == 0
}
