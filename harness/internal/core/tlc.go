package core

import (
	"bufio"
	"context"
	"fmt"
	"io"
	"os"
	"os/exec"
	"path/filepath"
	"regexp"
	"strconv"
	"strings"
	"time"
)

const (
	tlaJar  = "/opt/veriftools/tla/tla2tools.jar"
	tlaDeps = "/opt/veriftools/tla/CommunityModules-deps.jar"
)

// TLCRun describes one TLC invocation on a module of /verif/spec.
type TLCRun struct {
	Module     string            // root module name (file Module.tla must exist in spec dir or Extra)
	Config     string            // cfg file name (in spec dir or Extra)
	Extra      map[string]string // generated files placed next to the spec (constant tables, traces, cfg)
	Workers    int               // 0 = default
	Simulate   bool              // -simulate
	SimNum     int               // num= (per worker)
	Depth      int               // -depth for simulation
	Seed       int64             // -seed (simulation only)
	Timeout    time.Duration     // outer timeout (default 10 min)
	HeapGB     int               // -Xmx (default 6)
	DFS        bool              // depth-first state queue (trace validation with branching)
	Coverage   bool              // -coverage 1
	NoDeadlock bool              // -deadlock (disable deadlock checking) in addition to the cfg
	OnLine     func(tag, json string)
	OnRaw      func(line string) // every other output line
	Tags       []string          // tags of PrintT lines to extract, e.g. "CASE"
}

// TLCResult summarises a finished run.
type TLCResult struct {
	Generated int64 // states generated (= transitions explored + initial)
	Distinct  int64 // distinct states found
	Tagged    int64 // number of tagged lines delivered
	OK        bool  // finished without error, no invariant/property violated
	Violated  string
	Tail      string // last lines of output (for diagnostics)
	Elapsed   time.Duration
	ZeroCov   []string // coverage lines with count 0 (if Coverage)
	PostOK    bool
}

var (
	reStates   = regexp.MustCompile(`^(\d+) states generated, (\d+) distinct states found`)
	reSimGen   = regexp.MustCompile(`^The number of states generated: (\d+)`)
	reViolated = regexp.MustCompile(`^Error: (Invariant (\S+) is violated|Action property (\S+) is violated|Temporal properties were violated|The postcondition .* (is violated|evaluated to FALSE)|.*)`)
)

// SpecDir is the directory holding the TLA+ sources.
func SpecDir() string { return filepath.Join(VerifDir, "spec") }

// PrepareSpec copies /verif/spec (flat) into a scratch directory so that TLC's
// litter (states/, *_TTrace_*) never lands in /verif.
func PrepareSpec(scratch string, extra map[string]string) string {
	dst := filepath.Join(scratch, fmt.Sprintf("spec-%d", time.Now().UnixNano()))
	if err := os.MkdirAll(dst, 0o755); err != nil {
		Machinery("mkdir %s: %v", dst, err)
	}
	ents, err := os.ReadDir(SpecDir())
	if err != nil {
		Machinery("read spec dir: %v", err)
	}
	for _, e := range ents {
		if e.IsDir() {
			continue
		}
		if !strings.HasSuffix(e.Name(), ".tla") && !strings.HasSuffix(e.Name(), ".cfg") {
			continue
		}
		b, err := os.ReadFile(filepath.Join(SpecDir(), e.Name()))
		if err != nil {
			Machinery("read spec: %v", err)
		}
		if err := os.WriteFile(filepath.Join(dst, e.Name()), b, 0o644); err != nil {
			Machinery("write spec: %v", err)
		}
	}
	for n, c := range extra {
		if err := os.WriteFile(filepath.Join(dst, n), []byte(c), 0o644); err != nil {
			Machinery("write spec extra: %v", err)
		}
	}
	return dst
}

// RunTLC runs TLC in a scratch copy of the spec directory. Any TLC error (parse
// error, invariant violated on the ideal specification, timeout) is reported in
// the result with OK=false; callers treat that as a machinery failure because
// the specification is the oracle, not the subject.
func RunTLC(scratch string, r TLCRun) *TLCResult {
	dir := PrepareSpec(scratch, r.Extra)
	meta := filepath.Join(dir, "meta")
	heap := r.HeapGB
	if heap == 0 {
		heap = 6
	}
	to := r.Timeout
	if to == 0 {
		to = 10 * time.Minute
	}
	args := []string{fmt.Sprintf("-Xmx%dg", heap), "-Xss512m", "-XX:+UseParallelGC"}
	if r.DFS {
		args = append(args, "-Dtlc2.tool.queue.IStateQueue=StateDeque")
	}
	args = append(args, "-cp", tlaJar+":"+tlaDeps, "tlc2.TLC", "-metadir", meta, "-noGenerateSpecTE")
	w := r.Workers
	if w == 0 {
		w = 8
	}
	args = append(args, "-workers", strconv.Itoa(w))
	if r.Simulate {
		s := "num=" + strconv.Itoa(r.SimNum)
		args = append(args, "-simulate", s)
		if r.Depth > 0 {
			args = append(args, "-depth", strconv.Itoa(r.Depth))
		}
		args = append(args, "-seed", strconv.FormatInt(r.Seed, 10))
	}
	if r.Coverage {
		args = append(args, "-coverage", "1")
	}
	if r.NoDeadlock {
		args = append(args, "-deadlock")
	}
	args = append(args, "-config", r.Config, r.Module)

	ctx, cancel := context.WithTimeout(context.Background(), to)
	defer cancel()
	cmd := exec.CommandContext(ctx, "java", args...)
	cmd.Dir = dir
	cmd.Env = append(os.Environ(), "JAVA_TOOL_OPTIONS=")
	stdout, err := cmd.StdoutPipe()
	if err != nil {
		Machinery("tlc pipe: %v", err)
	}
	cmd.Stderr = cmd.Stdout
	start := time.Now()
	if err := cmd.Start(); err != nil {
		Machinery("cannot start java: %v", err)
	}
	res := &TLCResult{}
	tail := make([]string, 0, 64)
	tagPrefix := map[string]string{}
	for _, t := range r.Tags {
		tagPrefix[t] = `<<"` + t + `", "`
	}
	rd := bufio.NewReaderSize(stdout, 1<<20)
	sawFinish := false
	sawError := false
	for {
		line, err := readLine(rd)
		if line != "" {
			handled := false
			if strings.HasPrefix(line, `<<"`) {
				for t, p := range tagPrefix {
					if strings.HasPrefix(line, p) && strings.HasSuffix(line, `">>`) {
						js := unquoteTLA(line[len(p) : len(line)-3])
						res.Tagged++
						if r.OnLine != nil {
							r.OnLine(t, js)
						}
						handled = true
						break
					}
				}
			}
			if !handled {
				if r.OnRaw != nil {
					r.OnRaw(line)
				}
				if m := reStates.FindStringSubmatch(line); m != nil {
					res.Generated, _ = strconv.ParseInt(m[1], 10, 64)
					res.Distinct, _ = strconv.ParseInt(m[2], 10, 64)
				} else if m := reSimGen.FindStringSubmatch(line); m != nil {
					res.Generated, _ = strconv.ParseInt(m[1], 10, 64)
					if res.Distinct == 0 {
						res.Distinct = res.Generated
					}
				} else if strings.HasPrefix(line, "Error:") {
					sawError = true
					if res.Violated == "" {
						res.Violated = line
					}
				} else if strings.HasPrefix(line, "Model checking completed. No error has been found.") {
					sawFinish = true
				} else if strings.Contains(line, "Finished in") {
					// end marker for both modes
				}
				if r.Coverage && strings.HasSuffix(line, ": 0") && strings.Contains(line, "line ") {
					res.ZeroCov = append(res.ZeroCov, strings.TrimSpace(line))
				}
				if len(tail) == cap(tail) {
					copy(tail, tail[1:])
					tail = tail[:len(tail)-1]
				}
				tail = append(tail, line)
			}
		}
		if err != nil {
			break
		}
	}
	werr := cmd.Wait()
	res.Elapsed = time.Since(start)
	res.Tail = strings.Join(tail, "\n")
	if ctx.Err() == context.DeadlineExceeded {
		res.OK = false
		res.Violated = "timeout after " + to.String()
		return res
	}
	if r.Simulate {
		// a simulation that ran its num behaviours ends without the BFS banner
		res.OK = !sawError && werr == nil
	} else {
		res.OK = sawFinish && !sawError && werr == nil
	}
	if !res.OK && res.Violated == "" {
		res.Violated = fmt.Sprintf("tlc exit: %v", werr)
	}
	return res
}

func readLine(rd *bufio.Reader) (string, error) {
	var sb strings.Builder
	for {
		chunk, isPrefix, err := rd.ReadLine()
		sb.Write(chunk)
		if err != nil {
			if err == io.EOF {
				return sb.String(), err
			}
			return sb.String(), err
		}
		if !isPrefix {
			return sb.String(), nil
		}
	}
}

// unquoteTLA undoes TLC's string printing (backslash and quote escapes).
func unquoteTLA(s string) string {
	if !strings.ContainsRune(s, '\\') {
		return s
	}
	var sb strings.Builder
	sb.Grow(len(s))
	for i := 0; i < len(s); i++ {
		c := s[i]
		if c == '\\' && i+1 < len(s) {
			i++
			switch s[i] {
			case 'n':
				sb.WriteByte('\n')
			case 't':
				sb.WriteByte('\t')
			case 'r':
				sb.WriteByte('\r')
			case 'f':
				sb.WriteByte('\f')
			default:
				sb.WriteByte(s[i])
			}
			continue
		}
		sb.WriteByte(c)
	}
	return sb.String()
}

// MustTLC runs TLC and aborts with a machinery failure unless it succeeded.
func MustTLC(scratch string, r TLCRun) *TLCResult {
	res := RunTLC(scratch, r)
	if !res.OK {
		Machinery("TLC failed on %s/%s: %s\n--- tail ---\n%s", r.Module, r.Config, res.Violated, res.Tail)
	}
	return res
}
