// Package core holds the plumbing shared by all checks: scratch space, building
// and running the tool from /repo's working tree, running TLC, findings, evidence.
package core

import (
	"fmt"
	"os"
	"os/exec"
	"os/signal"
	"path/filepath"
	"runtime"
	"strconv"
	"strings"
	"sync"
	"syscall"
)

// Exit codes of bin/check.
const (
	ExitOK        = 0
	ExitViolation = 1
	ExitMachinery = 2
)

// RepoDir is the implementation under verification; VerifDir is this framework.
var (
	RepoDir  = envOr("VERIF_REPO", "/repo")
	VerifDir = envOr("VERIF_DIR", "/verif")
)

func envOr(k, d string) string {
	if v := os.Getenv(k); v != "" {
		return v
	}
	return d
}

// Machinery aborts the check with exit code 2: something in the framework itself
// failed (TLC error, harness input does not compile, timeout of our own tools).
// It is never reported as a violation of a property.
func Machinery(format string, a ...any) {
	fmt.Fprintf(os.Stderr, "MACHINERY-FAILURE: "+format+"\n", a...)
	CleanupAll()
	os.Exit(ExitMachinery)
}

var (
	scratchMu   sync.Mutex
	scratchDirs []string
)

// Scratch creates a fresh scratch directory outside /repo and /verif. All of
// them are removed by CleanupAll (called on normal exit and on signals).
func Scratch(prefix string) string {
	base := envOr("VERIF_SCRATCH", "/var/tmp")
	_ = os.MkdirAll(base, 0o755)
	d, err := os.MkdirTemp(base, "verif-"+prefix+"-")
	if err != nil {
		fmt.Fprintf(os.Stderr, "MACHINERY-FAILURE: cannot create scratch dir: %v\n", err)
		os.Exit(ExitMachinery)
	}
	scratchMu.Lock()
	scratchDirs = append(scratchDirs, d)
	scratchMu.Unlock()
	return d
}

// CleanupAll removes every scratch directory created by this process.
func CleanupAll() {
	if os.Getenv("VERIF_KEEP") != "" {
		return
	}
	scratchMu.Lock()
	defer scratchMu.Unlock()
	for _, d := range scratchDirs {
		_ = os.RemoveAll(d)
	}
	scratchDirs = nil
}

// InstallSignalCleanup removes scratch space when the check is interrupted.
func InstallSignalCleanup() {
	ch := make(chan os.Signal, 1)
	signal.Notify(ch, os.Interrupt, syscall.SIGTERM)
	go func() {
		<-ch
		CleanupAll()
		os.Exit(ExitMachinery)
	}()
}

// GoEnv is the environment for every go command we start: offline, module mode.
func GoEnv(extra ...string) []string {
	env := os.Environ()
	out := make([]string, 0, len(env)+8)
	for _, e := range env {
		k := e[:strings.IndexByte(e+"=", '=')]
		switch k {
		case "GOFLAGS", "GOPROXY", "GOSUMDB", "GOTOOLCHAIN", "GOFILE", "GOPACKAGE", "GOLINE", "GO111MODULE":
			continue
		}
		out = append(out, e)
	}
	out = append(out, "GOFLAGS=-mod=mod", "GOPROXY=off", "GOSUMDB=off", "GOTOOLCHAIN=local")
	out = append(out, extra...)
	return out
}

var (
	goDirsOnce sync.Once
	goDirs     []string
)

// GoDirs pins GOCACHE, GOPATH and GOMODCACHE to their current values so that a
// run with a different HOME keeps using the warm caches (and does not litter
// the fake home directory with a build cache of the go command, which is not
// a file "written by the tool").
func GoDirs() []string {
	goDirsOnce.Do(func() {
		so, _, code := RunCmd("", nil, "go", "env", "GOCACHE", "GOPATH", "GOMODCACHE")
		if code != 0 {
			return
		}
		v := strings.Split(strings.TrimSpace(so), "\n")
		if len(v) == 3 {
			goDirs = []string{"GOCACHE=" + v[0], "GOPATH=" + v[1], "GOMODCACHE=" + v[2]}
		}
	})
	return goDirs
}

// Workers is the parallelism used for tool runs.
func Workers() int {
	if v, err := strconv.Atoi(os.Getenv("VERIF_WORKERS")); err == nil && v > 0 {
		return v
	}
	n := runtime.NumCPU()
	if n > 16 {
		n = 16
	}
	return n
}

// ParallelFor runs f(i) for i in [0,n) on Workers() goroutines.
func ParallelFor(n int, f func(i int)) {
	w := Workers()
	if w > n {
		w = n
	}
	if w <= 1 {
		for i := 0; i < n; i++ {
			f(i)
		}
		return
	}
	var wg sync.WaitGroup
	ch := make(chan int)
	for k := 0; k < w; k++ {
		wg.Add(1)
		go func() {
			defer wg.Done()
			for i := range ch {
				f(i)
			}
		}()
	}
	for i := 0; i < n; i++ {
		ch <- i
	}
	close(ch)
	wg.Wait()
}

// WriteFiles materialises path->content under root.
func WriteFiles(root string, files map[string]string) error {
	for p, c := range files {
		full := filepath.Join(root, p)
		if err := os.MkdirAll(filepath.Dir(full), 0o755); err != nil {
			return err
		}
		if err := os.WriteFile(full, []byte(c), 0o644); err != nil {
			return err
		}
	}
	return nil
}

// RunCmd runs a command, returning stdout, stderr and the exit code (-1 if it
// could not be started or was killed).
func RunCmd(dir string, env []string, name string, args ...string) (string, string, int) {
	cmd := exec.Command(name, args...)
	cmd.Dir = dir
	if env != nil {
		cmd.Env = env
	}
	var so, se strings.Builder
	cmd.Stdout = &so
	cmd.Stderr = &se
	err := cmd.Run()
	code := 0
	if err != nil {
		if ee, ok := err.(*exec.ExitError); ok {
			code = ee.ExitCode()
		} else {
			code = -1
			se.WriteString(err.Error())
		}
	}
	return so.String(), se.String(), code
}
