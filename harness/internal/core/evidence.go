package core

import (
	"crypto/sha1"
	"encoding/hex"
	"encoding/json"
	"fmt"
	"os"
	"path/filepath"
	"sort"
	"strconv"
	"sync"
	"time"
)

// Ctx carries what every check needs.
type Ctx struct {
	Property string
	Tier     string // quick | thorough
	Seed     int64
	Scratch  string
	Tool     *Tool
	Start    time.Time
	Replay   string // non-empty: re-judge this replay file only
	Selftest bool

	mu         sync.Mutex
	replayOnce sync.Once
	violations []Violation
	known      map[string]int
	Ev         Evidence
	nontrivial map[string]struct{}
}

// Violation is one confirmed mismatch between the implementation and what the
// specification permits.
type Violation struct {
	Property string
	Replay   string
	What     string
}

// Evidence mirrors EVIDENCE.schema.json.
type Evidence struct {
	PropertyID  string         `json:"property_id"`
	Tier        string         `json:"tier"`
	Seed        int64          `json:"seed"`
	Level       string         `json:"level"`
	Coverage    map[string]any `json:"coverage"`
	Assumptions []string       `json:"assumptions,omitempty"`
	WallS       float64        `json:"wall_s"`
	Violations  int            `json:"violations"`
}

// NewCtx prepares a check context: scratch space and the tool built from /repo.
func NewCtx(property, tier string, seed int64) *Ctx {
	c := &Ctx{Property: property, Tier: tier, Seed: seed, Start: time.Now()}
	c.Scratch = Scratch(property)
	c.known = map[string]int{}
	c.nontrivial = map[string]struct{}{}
	c.Ev = Evidence{PropertyID: property, Tier: tier, Seed: seed, Level: "model_checking", Coverage: map[string]any{}}
	return c
}

// EnsureTool builds the implementation once per check.
func (c *Ctx) EnsureTool() *Tool {
	c.mu.Lock()
	defer c.mu.Unlock()
	if c.Tool == nil {
		c.Tool = BuildTool(c.Scratch)
	}
	return c.Tool
}

// Thorough reports whether the thorough tier was requested.
func (c *Ctx) Thorough() bool { return c.Tier == "thorough" }

// AddCount adds n to an integer coverage counter.
func (c *Ctx) AddCount(key string, n int64) {
	c.mu.Lock()
	defer c.mu.Unlock()
	cur, _ := c.Ev.Coverage[key].(int64)
	c.Ev.Coverage[key] = cur + n
}

// Set sets a coverage key.
func (c *Ctx) Set(key string, v any) {
	c.mu.Lock()
	defer c.mu.Unlock()
	c.Ev.Coverage[key] = v
}

// Nontrivial records one distinct non-trivial case (deduplicated by key).
func (c *Ctx) Nontrivial(key string) {
	c.mu.Lock()
	defer c.mu.Unlock()
	c.nontrivial[key] = struct{}{}
}

// Sample appends a sample case to the evidence (bounded).
func (c *Ctx) Sample(v any) {
	c.mu.Lock()
	defer c.mu.Unlock()
	s, _ := c.Ev.Coverage["samples"].([]any)
	if len(s) >= 4 {
		return
	}
	c.Ev.Coverage["samples"] = append(s, v)
}

// AddTLC accumulates TLC's measured state counts into the evidence.
func (c *Ctx) AddTLC(r *TLCResult) {
	c.AddCount("states", r.Distinct)
	c.AddCount("transitions", r.Generated)
}

// ReplayDir returns (and creates) the directory for this property's replay
// files. Replay files of earlier runs are removed on first use in a run.
func (c *Ctx) ReplayDir() string {
	d := filepath.Join(VerifDir, "replays", c.Property)
	c.replayOnce.Do(func() {
		if c.Replay == "" {
			_ = os.RemoveAll(d)
		}
	})
	_ = os.MkdirAll(d, 0o755)
	return d
}

// HashID is a short stable identifier of a case.
func HashID(s string) string {
	h := sha1.Sum([]byte(s))
	return hex.EncodeToString(h[:])[:12]
}

// ReplayFile is the on-disk form of one judged case (appendix F of DESIGN.md).
type ReplayFile struct {
	Property string            `json:"property"`
	Family   string            `json:"family"`
	Case     json.RawMessage   `json:"case"`
	Files    map[string]string `json:"files,omitempty"`
	Command  []string          `json:"command,omitempty"`
	Observed any               `json:"observed,omitempty"`
	Expected any               `json:"expected,omitempty"`
	Diff     string            `json:"diff"`
	Seed     int64             `json:"seed"`
	Tier     string            `json:"tier"`
}

// WriteReplay stores a replay file and returns its path.
func (c *Ctx) WriteReplay(id string, r *ReplayFile) string {
	r.Property = c.Property
	r.Seed = c.Seed
	r.Tier = c.Tier
	p := filepath.Join(c.ReplayDir(), id+".json")
	b, _ := json.MarshalIndent(r, "", " ")
	_ = os.WriteFile(p, b, 0o644)
	return p
}

// Report records a confirmed mismatch. If a known finding matches (by
// deviation id, which the caller computed from the specification's named
// deviation predicate AND the observed outcome), it is downgraded.
func (c *Ctx) Report(deviation string, what string, replayPath string) {
	c.mu.Lock()
	defer c.mu.Unlock()
	if deviation != "" {
		if f := LookupFinding(c.Property, deviation); f != nil && f.Status == "open" {
			c.known[deviation]++
			return
		}
	}
	c.violations = append(c.violations, Violation{Property: c.Property, Replay: replayPath, What: what})
}

// ViolationCount returns the number of violations so far.
func (c *Ctx) ViolationCount() int {
	c.mu.Lock()
	defer c.mu.Unlock()
	return len(c.violations)
}

// Finish writes the evidence file, prints verdict lines and exits.
func (c *Ctx) Finish() {
	c.mu.Lock()
	ev := c.Ev
	ev.WallS = time.Since(c.Start).Seconds()
	ev.Violations = len(c.violations)
	ev.Coverage["distinct_nontrivial"] = int64(len(c.nontrivial))
	if _, ok := ev.Coverage["samples"]; !ok {
		ev.Coverage["samples"] = []any{}
	}
	for _, k := range []string{"states", "transitions", "traces_validated_against_impl", "evaluations"} {
		if _, ok := ev.Coverage[k]; !ok {
			ev.Coverage[k] = int64(0)
		}
	}
	viol := append([]Violation(nil), c.violations...)
	known := map[string]int{}
	for k, v := range c.known {
		known[k] = v
	}
	c.mu.Unlock()

	// evidence describes /repo itself: a development run against a scratch tree
	// (VERIF_REPO) leaves the evidence files alone
	if c.Replay == "" && !c.Selftest && RepoDir == "/repo" {
		_ = os.MkdirAll(filepath.Join(VerifDir, "evidence"), 0o755)
		b, _ := json.MarshalIndent(ev, "", " ")
		if err := os.WriteFile(filepath.Join(VerifDir, "evidence", c.Property+".json"), append(b, '\n'), 0o644); err != nil {
			Machinery("cannot write evidence: %v", err)
		}
	}
	keys := make([]string, 0, len(known))
	for k := range known {
		keys = append(keys, k)
	}
	sort.Strings(keys)
	for _, k := range keys {
		f := LookupFinding(c.Property, k)
		fmt.Printf("KNOWN-FINDING: property=%s %s: %s (%d case(s) in this run)\n", c.Property, k, f.What, known[k])
	}
	seen := map[string]bool{}
	n := 0
	for _, v := range viol {
		if seen[v.Replay] {
			continue
		}
		seen[v.Replay] = true
		n++
		if n <= 25 {
			fmt.Printf("VIOLATION property=%s replay=%s\n", v.Property, v.Replay)
			fmt.Printf("  %s\n", v.What)
		}
	}
	if n > 25 {
		fmt.Printf("  ... and %d more violations (replay files under %s)\n", n-25, c.ReplayDir())
	}
	fmt.Printf("%s tier=%s seed=%d: %s impl-bound=%v states=%v wall=%.1fs\n", c.Property, c.Tier, c.Seed,
		map[bool]string{true: "HELD", false: "VIOLATED"}[n == 0],
		ev.Coverage["traces_validated_against_impl"], ev.Coverage["states"], ev.WallS)
	CleanupAll()
	if n > 0 {
		os.Exit(ExitViolation)
	}
	os.Exit(ExitOK)
}

// SeedFromEnv reads VERIF_SEED.
func SeedFromEnv() int64 {
	if v, err := strconv.ParseInt(os.Getenv("VERIF_SEED"), 10, 64); err == nil {
		return v
	}
	return 1
}
