package core

import (
	"encoding/json"
	"os"
	"path/filepath"
	"sync"
)

// Finding is one entry of /verif/known_findings.json. The file is committed and
// never written at run time. An "open" entry downgrades a mismatch to a
// KNOWN-FINDING line only when the check computed the same deviation id for
// it, i.e. the case satisfies the named deviation's predicate AND the real
// observation equals the deviation's outcome. "fixed" entries silence nothing.
type Finding struct {
	ID        string `json:"id"`
	Property  string `json:"property"`
	Status    string `json:"status"` // open | fixed
	Commit    string `json:"commit,omitempty"`
	Deviation string `json:"deviation"`
	What      string `json:"what"`
}

var (
	findingsOnce sync.Once
	findings     []Finding
)

func loadFindings() {
	b, err := os.ReadFile(filepath.Join(VerifDir, "known_findings.json"))
	if err != nil {
		return
	}
	if err := json.Unmarshal(b, &findings); err != nil {
		Machinery("known_findings.json is not valid: %v", err)
	}
}

// LookupFinding returns the entry for (property, deviation) or nil.
func LookupFinding(property, deviation string) *Finding {
	findingsOnce.Do(loadFindings)
	for i := range findings {
		if findings[i].Property == property && findings[i].Deviation == deviation {
			return &findings[i]
		}
	}
	return nil
}

// OpenDeviation reports whether the named deviation is an open known finding
// for the property.
func OpenDeviation(property, deviation string) bool {
	f := LookupFinding(property, deviation)
	return f != nil && f.Status == "open"
}
