package core

import (
	"os"
	"path/filepath"
)

// BuildAgainstRepo builds a small driver program that links packages of the
// implementation (from /repo's current working tree, via a replace directive)
// and returns the path of the binary. Build failure = machinery failure unless
// allowFail, in which case ("", output) is returned so that the caller can
// decide (an API the driver needs may have been removed by a change).
func BuildAgainstRepo(scratch, name string, files map[string]string) string {
	dir := filepath.Join(scratch, name)
	_ = os.MkdirAll(dir, 0o755)
	gomod := "module " + name + "\n\ngo 1.19\n\nrequire github.com/reedom/convergen v0.0.0\n\nreplace github.com/reedom/convergen => " + RepoDir + "\n"
	if err := os.WriteFile(filepath.Join(dir, "go.mod"), []byte(gomod), 0o644); err != nil {
		Machinery("write go.mod: %v", err)
	}
	if b, err := os.ReadFile(filepath.Join(RepoDir, "go.sum")); err == nil {
		_ = os.WriteFile(filepath.Join(dir, "go.sum"), b, 0o644)
	}
	if err := WriteFiles(dir, files); err != nil {
		Machinery("write driver: %v", err)
	}
	bin := filepath.Join(dir, name+".bin")
	_, se, code := RunCmd(dir, GoEnv(), "go", "build", "-tags", BuildTag, "-o", bin, ".")
	if code != 0 {
		Machinery("cannot build driver %s against %s: %s", name, RepoDir, se)
	}
	return bin
}
