// check is the single entry point of the verification framework:
//
//	bin/check <property> [--tier quick|thorough] [--replay <file>] [--selftest]
//
// Exit 0: the property held on everything explored. Exit 1: a line
// "VIOLATION property=<id> replay=<path>" was printed. Exit 2: the machinery
// itself failed (never reported as a violation).
package main

import (
	"fmt"
	"os"
	"sort"

	"verif/internal/checks"
	"verif/internal/core"
)

func usage() {
	ids := make([]string, 0, len(checks.Registry))
	for k := range checks.Registry {
		ids = append(ids, k)
	}
	sort.Strings(ids)
	fmt.Fprintf(os.Stderr, "usage: check <property> [--tier quick|thorough] [--replay file] [--selftest]\nproperties: %v\n", ids)
	os.Exit(core.ExitMachinery)
}

func main() {
	if len(os.Args) < 2 {
		usage()
	}
	id := os.Args[1]
	f, ok := checks.Registry[id]
	if !ok {
		usage()
	}
	tier := os.Getenv("VERIF_TIER")
	replay := ""
	selftest := false
	for i := 2; i < len(os.Args); i++ {
		switch os.Args[i] {
		case "--tier":
			i++
			if i < len(os.Args) {
				tier = os.Args[i]
			}
		case "--replay":
			i++
			if i < len(os.Args) {
				replay = os.Args[i]
			}
		case "--selftest":
			selftest = true
		default:
			usage()
		}
	}
	if tier != "thorough" {
		tier = "quick"
	}
	core.InstallSignalCleanup()
	ctx := core.NewCtx(id, tier, core.SeedFromEnv())
	ctx.Replay = replay
	ctx.Selftest = selftest
	// stale replay files of an earlier run go away now - unless this run is to re-judge one of them
	_ = ctx.ReplayDir()
	defer func() {
		if e := recover(); e != nil {
			core.Machinery("panic in check %s: %v", id, e)
		}
	}()
	f(ctx)
	ctx.Finish()
}
