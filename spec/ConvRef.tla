------------------------------ MODULE ConvRef ------------------------------
(***************************************************************************)
(* C06, last clause: "a :conv target may be another function being         *)
(* generated in the same run".  Mirrors parser/parser.go Parse (all        *)
(* interfaces are parsed first, THEN every converter is resolved against   *)
(* the methods of all of them) and parser/comment.go resolveConverters     *)
(* (a to-be-generated function qualifies iff it is generated in return     *)
(* style without receiver; its source operand is the parameter, its        *)
(* destination the result, its error result is inherited).                 *)
(* The referenced method may live in the same interface, or in another     *)
(* converter interface that is processed earlier or later (interfaces are  *)
(* processed in name order, whatever their order in the file).             *)
(***************************************************************************)
EXTENDS Naturals, Sequences, FiniteSets, TLC, Json

Cfg == [where: {"same", "earlier", "later"}, fileOrder: {"refFirst", "callerFirst"},
        refStyle: {"return", "arg"}, refRecv: BOOLEAN, refErr: BOOLEAN, refPtr: BOOLEAN, callerErr: BOOLEAN]

VARIABLES cfg, pc, parsed, result
vars == <<cfg, pc, parsed, result>>
NoResult == [reject |-> FALSE, term |-> "", err |-> FALSE]

Init == cfg \in Cfg /\ pc = "parse" /\ parsed = {} /\ result = NoResult

\* pass 1: every converter interface is parsed (in name order)
ParseAll == /\ pc = "parse"
            /\ parsed' = {"ref", "caller"}
            /\ pc' = "resolve"
            /\ UNCHANGED <<cfg, result>>

\* pass 2: the caller's :conv is resolved against ALL parsed methods
Resolve == /\ pc = "resolve"
           /\ IF "ref" \notin parsed THEN result' = [reject |-> TRUE, term |-> "", err |-> FALSE]
              ELSE IF cfg.refStyle # "return" \/ cfg.refRecv THEN result' = [reject |-> TRUE, term |-> "", err |-> FALSE]
              ELSE IF cfg.refErr /\ ~cfg.callerErr THEN result' = [reject |-> TRUE, term |-> "", err |-> FALSE]   \* C07
              ELSE result' = [reject |-> FALSE,
                              term |-> IF cfg.refPtr THEN "Ref(&SRC.N)" ELSE "Ref(SRC.N)",
                              err |-> cfg.refErr]
           /\ pc' = "done"
           /\ UNCHANGED <<cfg, parsed>>

\* the defect the property excludes: resolving while only the interfaces processed so far are known
ResolveEarly == /\ pc = "parse"
                /\ parsed' = IF cfg.where = "later" THEN {"caller"} ELSE {"ref", "caller"}
                /\ pc' = "resolve"
                /\ UNCHANGED <<cfg, result>>

Next == ParseAll \/ Resolve
NextEarly == ResolveEarly \/ Resolve
Spec == Init /\ [][Next]_vars
SpecEarly == Init /\ [][NextEarly]_vars
Done == pc = "done"

\* where the referenced method lives does not matter
PlacementFree == Done => (result.reject <=> (cfg.refStyle # "return" \/ cfg.refRecv \/ (cfg.refErr /\ ~cfg.callerErr)))
ErrInherited == Done /\ ~result.reject => result.err = cfg.refErr

Emit == Done => PrintT(<<"CASE", ToJson([cfg |-> cfg, result |-> result])>>)
=============================================================================
