SPECIFICATION Spec
CONSTANTS
  Checks = {"values", "frame", "src", "panic"}
  TraceFile = "trace.ndjson"
  Deviations = {}
CONSTRAINT HighWater
POSTCONDITION Accepted
CHECK_DEADLOCK FALSE
