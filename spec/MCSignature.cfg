SPECIFICATION Spec
CONSTANTS
  MaxArgs = 3
INVARIANTS SrcOrRecvFirst DstPlace ArgsInOrder ErrLast NamesPreserved IllegalRejected DistinctNames Emit
CHECK_DEADLOCK FALSE
