SPECIFICATION Spec
CONSTANTS
  MaxArgs = 4
INVARIANTS SrcOrRecvFirst DstPlace ArgsInOrder ErrLast NamesPreserved ResultNamePreserved IllegalRejected DistinctNames QualifierUsed Emit
CHECK_DEADLOCK FALSE
