SPECIFICATION Spec
INVARIANTS Scope DefaultsStable Emit
CHECK_DEADLOCK FALSE
