------------------------------ MODULE GenExec ------------------------------
(***************************************************************************)
(* The functions convergen EMITS are themselves small sequential programs: *)
(* allocate the destination, call the preprocess hook, execute the         *)
(* assignments (some of which call user code that may fail), call the      *)
(* postprocess hook, return.  This module is the abstract machine of one   *)
(* such function (generator/function.go FuncToString, assignment.go,       *)
(* manipulator.go, model/assignment.go) for a PROGRAM = a set of fragment  *)
(* kinds (GenExecFrag) + style + hook shapes + error result.  Statements   *)
(* may execute in any order (the properties fix none); every error-capable *)
(* call may fail.                                                          *)
(*                                                                         *)
(* TLC explores every order and every choice of failing calls and checks   *)
(*   C07  after a failure only Return is enabled, and it returns that      *)
(*        failure; an error-capable program has an error result            *)
(*   C10  Pre first and once, Post last and once                           *)
(*   C02  every execution terminates (in at most |sites|+4 steps)          *)
(* and prints each program once (PROG) for the harness to concretise, run  *)
(* and record; the recorded traces are validated against GenExecTrace.     *)
(***************************************************************************)
EXTENDS Naturals, Sequences, FiniteSets, TLC, Json, GenExecFrag

CONSTANTS KindSets      \* the sets of fragment kinds to explore

\* retptr / retval / arg: the three documented shapes; recvptr: return style with :recv (the source is the
\* receiver); argrev: :style arg with :reverse (the copy goes INTO the method's source operand; additional
\* arguments are illegal there and which operand a hook sees is undocumented, so such programs have neither)
\* argval: :style arg on a method that declares its destination BY VALUE - the header takes a pointer all the same
\* retie: retptr on a method that NAMES its operands the way generated code names its own helpers - the source is
\* called e, the destination i (the variables of an element-wise slice copy); names are the user's business
Styles == {"retptr", "retval", "arg", "argval", "recvptr", "argrev", "retie"}
HookShapes == {[on |-> FALSE, dstPtr |-> FALSE, srcPtr |-> FALSE, err |-> FALSE, args |-> FALSE],
               [on |-> TRUE, dstPtr |-> TRUE, srcPtr |-> TRUE, err |-> FALSE, args |-> FALSE],
               [on |-> TRUE, dstPtr |-> FALSE, srcPtr |-> FALSE, err |-> FALSE, args |-> TRUE],
               [on |-> TRUE, dstPtr |-> TRUE, srcPtr |-> FALSE, err |-> TRUE, args |-> TRUE]}
HookPairs == {<<a, b>> \in HookShapes \X HookShapes :
                \* six combinations: none, pre only (pointer), post only (pointer), both by value, both with error, mixed
                \/ (~a.on /\ ~b.on) \/ (a.on /\ a.dstPtr /\ ~a.err /\ ~b.on) \/ (~a.on /\ b.on /\ b.dstPtr /\ ~b.err)
                \/ (a.on /\ b.on /\ ~a.dstPtr /\ ~b.dstPtr) \/ (a.on /\ b.on /\ a.err /\ b.err)
                \/ (a.on /\ b.on /\ ~a.dstPtr /\ b.dstPtr /\ ~b.err)}

NeedsErr(ks, pre, post) == (ks \cap ErrKinds # {}) \/ pre.err \/ post.err
Programs == {[kinds |-> ks, style |-> s, pre |-> h[1], post |-> h[2], retErr |-> e] :
               ks \in KindSets, s \in Styles, h \in HookPairs, e \in BOOLEAN}
\* C07 (static): an error-capable callee is never wired into a function without error result -
\* such programs do not exist (the tool rejects them; judged by case replay)
Legal(p) == /\ (NeedsErr(p.kinds, p.pre, p.post) => p.retErr)
            /\ (p.style = "argrev" => ~p.pre.on /\ ~p.post.on /\ "arg" \notin p.kinds /\ "argnest" \notin p.kinds)

VARIABLES prog, phase, pending, failed, calls
vars == <<prog, phase, pending, failed, calls>>

BodySites(p) == UNION {Frag[k].sites : k \in p.kinds}
BodyErr(p)   == UNION {Frag[k].errsites : k \in p.kinds}

Init == /\ prog \in {p \in Programs : Legal(p)}
        /\ phase = "start" /\ pending = BodySites(prog) /\ failed = "nil" /\ calls = << >>

Alloc == /\ phase = "start"
         /\ phase' = IF prog.pre.on THEN "pre" ELSE "body"
         /\ UNCHANGED <<prog, pending, failed, calls>>

CallPre(fail) == /\ phase = "pre" /\ failed = "nil"
                 /\ (fail => prog.pre.err)
                 /\ calls' = Append(calls, "Pre")
                 /\ failed' = IF fail THEN "Pre" ELSE "nil"
                 /\ phase' = "body"
                 /\ UNCHANGED <<prog, pending>>

\* one pending call site of the body, any order; an error-capable one may fail.
\* (For programs with more than five call sites the exploration of orders is cut down to one canonical
\* order - the number of orders grows factorially and adds nothing the smaller programs do not show;
\* the trace specification accepts any order for every program.)
SiteOrd == <<"Fgetter", "S", "CvV", "CvP", "CvE", "GetE", "CvE2", "CvE3">>
Rank(s) == CHOOSE i \in DOMAIN SiteOrd : SiteOrd[i] = s
Canonical(s) == \A t \in pending : Rank(s) <= Rank(t)
Exec(s, fail) == /\ phase = "body" /\ failed = "nil" /\ s \in pending
                 /\ (Cardinality(BodySites(prog)) > 5 => Canonical(s))
                 /\ (fail => s \in BodyErr(prog))
                 /\ calls' = Append(calls, s)
                 /\ pending' = pending \ {s}
                 /\ failed' = IF fail THEN s ELSE "nil"
                 /\ UNCHANGED <<prog, phase>>

CallPost(fail) == /\ phase = "body" /\ failed = "nil" /\ pending = {} /\ prog.post.on
                  /\ (fail => prog.post.err)
                  /\ calls' = Append(calls, "Post")
                  /\ failed' = IF fail THEN "Post" ELSE "nil"
                  /\ phase' = "post"
                  /\ UNCHANGED <<prog, pending>>

Return == /\ \/ (phase \in {"body", "post"} /\ failed # "nil")
             \/ (phase = "post")
             \/ (phase = "body" /\ pending = {} /\ ~prog.post.on)
          /\ phase' = "done"
          /\ UNCHANGED <<prog, pending, failed, calls>>

Next == Alloc \/ (\E f \in BOOLEAN : CallPre(f)) \/ (\E s \in BodySites(prog), f \in BOOLEAN : Exec(s, f))
        \/ (\E f \in BOOLEAN : CallPost(f)) \/ Return
Spec == Init /\ [][Next]_vars /\ WF_vars(Next)

----------------------------------------------------------------------------
\* C07: once a call has failed nothing but Return happens
StopAfterFailure == [][failed # "nil" => (phase' = "done" /\ calls' = calls)]_vars
\* C07: the returned error is the failing site's (the machine keeps it in `failed` to the end)
ErrStable == [][failed # "nil" => failed' = failed]_vars
\* C10: Pre is the first call and Post the last, each at most once
PreFirst == \A k \in DOMAIN calls : calls[k] = "Pre" => k = 1
PostLast == \A k \in DOMAIN calls : calls[k] = "Post" => k = Len(calls) /\ pending = {}
AtMostOnce == \A j, k \in DOMAIN calls : calls[j] = calls[k] => j = k
\* C10: a successful run called Pre (if any), every site, and Post (if any)
Complete == phase = "done" /\ failed = "nil" =>
              /\ (prog.pre.on <=> \E k \in DOMAIN calls : calls[k] = "Pre")
              /\ (prog.post.on <=> \E k \in DOMAIN calls : calls[k] = "Post")
              /\ pending = {}
\* C02: every execution terminates
Terminates == <>(phase = "done")
Bounded == Len(calls) <= Cardinality(BodySites(prog)) + 2

EmitProg == phase = "start" => PrintT(<<"PROG", ToJson([kinds |-> prog.kinds, style |-> prog.style, pre |-> prog.pre, post |-> prog.post, retErr |-> prog.retErr])>>)
=============================================================================
