SPECIFICATION Spec
CONSTANTS
  Pats <- MCPatsSeq
  Paths <- MCPathsSeq
  SeqPaths <- MCPathsSeq
  MaxQ = 3
INVARIANTS HistoryFree PlainIsEquality CaseOffMonotonePlain Emit
PROPERTY PatStable
CHECK_DEADLOCK FALSE
