------------------------------ MODULE MCMatching ------------------------------
(* The abstract programs explored by Matching: root pairs of the note world x option
   vectors x notation sets built from the world's own paths and functions. *)
EXTENDS Matching

Step(n)   == [n |-> n, call |-> FALSE, arg |-> 0]
Call(n)   == [n |-> n, call |-> TRUE, arg |-> 0]
Dollar(k) == [n |-> "$", call |-> FALSE, arg |-> k]

SkipN(pk, path) == [k |-> "skip", dst |-> path, pk |-> pk, src |-> << >>, fn |-> "", text |-> ""]
MapN(src, dst)  == [k |-> "map",  dst |-> dst, pk |-> "", src |-> src, fn |-> "", text |-> ""]
ConvN(fn, src, dst) == [k |-> "conv", dst |-> dst, pk |-> "", src |-> src, fn |-> fn, text |-> ""]
LitN(dst, text) == [k |-> "lit",  dst |-> dst, pk |-> "", src |-> << >>, fn |-> "", text |-> text]

\* ---- source paths from the source operand
SrcPaths == { <<Step("A")>>, <<Step("A2")>>, <<Step("B")>>, <<Step("N")>>, <<Step("N"), Step("X")>>, <<Step("P"), Step("X")>>,
              <<Step("Z")>>, <<Step("Emb"), Step("Z")>>, <<Call("Gi")>>, <<Call("Gs")>>, <<Call("Gp")>>, <<Call("Ge")>>,
              <<Call("Gn"), Step("X")>>, <<Call("Gv")>>, <<Step("Nope")>>, <<Step("u")>>, <<Step("W")>>,
              <<Step("D"), Step("In"), Step("Y")>>, <<Call("Ge"), Step("X")>>, <<Step("a")>>,
              \* paths that leave the setup file's package: members the generated package cannot see, and one it can
              <<Step("Q"), Step("w")>>, <<Step("Q"), Call("w2")>>, <<Step("H"), Step("In"), Step("w")>>, <<Step("H"), Step("In"), Step("V")>>,
              <<Step("_")>>,
              \* a getter with a pointer receiver on a member (addressable) and on another getter's result (not)
              <<Step("N"), Call("Pw")>>, <<Call("N3"), Call("Pw")>>, <<Call("N3"), Step("X")>> }
ConvSrc  == { <<Step("A")>>, <<Step("B")>>, <<Step("N")>>, <<Step("N"), Step("X")>>, <<Call("Gi")>>, <<Call("Ge")>>, <<Step("Nope")>> }
DollarPaths == { <<Dollar(1), Step("A")>>, <<Dollar(2)>>, <<Dollar(2), Step("X")>>, <<Dollar(3)>>, <<Dollar(9)>>, <<Dollar(2), Step("Nope")>>,
                 \* indices of two digits: $10 is the ninth additional argument, $12 the eleventh
                 <<Dollar(10)>>, <<Dollar(11), Step("X")>>, <<Dollar(12)>>, <<Dollar(20)>> }
ArgSets == { <<"int">>, <<"ArgS">>, <<"int", "string">>,
             <<"string", "string", "string", "string", "string", "string", "string", "string", "int", "ArgS", "int">> }

\* ---- destination paths
DstPaths(d) == PathsBelow(<< >>, d, 3)
Targets(d) == {p \in DstPaths(d) : p \in {<<"A">>, <<"B">>, <<"C">>, <<"N">>, <<"N", "X">>, <<"S">>, <<"D", "K">>, <<"X", "X">>, <<"I", "Y">>, <<"Z">>, <<"H", "K">>, <<"D", "In", "X">>, <<"D", "In">>, <<"Ac", "Profile", "Age">>, <<"M", "Profile", "Email">>, <<"Ac", "Anon", "Shown">>}}
          \cup {<<"Nowhere">>}                      \* a path that names nothing: inert
LowerPath(p) == [i \in DOMAIN p |-> Lower(p[i])]

SkipNotes(d) == {SkipN("exact", p) : p \in DstPaths(d)} \cup {SkipN("exact", LowerPath(p)) : p \in Targets(d)}
                \cup {SkipN("prefix", <<"N">>), SkipN("prefix", <<"n">>), SkipN("suffix", <<"X">>), SkipN("suffix", <<"a">>), SkipN("exact", <<"Nowhere">>),
                 \* patterns that also match members the generated package cannot see (they must stay unmentioned)
                 SkipN("tail", <<"X">>), SkipN("tail", <<"K">>), SkipN("tail", <<"k">>),
                 SkipN("suffix", <<"y">>), SkipN("suffix", <<"s">>), SkipN("suffix", <<"w">>), SkipN("prefix", <<"X">>), SkipN("prefix", <<"H">>)}
\* :map / :conv / :literal name their destination exactly, whatever the case rule: a path that differs in case names nothing
CaseVariants(d) == {LowerPath(p) : p \in Targets(d) \cap {<<"A">>, <<"N", "X">>, <<"D", "K">>}}
MapNotes(d)  == {MapN(s, p) : s \in SrcPaths, p \in Targets(d)} \cup {MapN(<<Step("A2")>>, p) : p \in CaseVariants(d)}
ConvNotes(d) == {ConvN(f, s, p) : f \in DOMAIN WFuncs, s \in ConvSrc, p \in Targets(d) \ {<<"Nowhere">>, <<"I", "Y">>, <<"Z">>}}
                \cup {ConvN("CvII", <<Step("A2")>>, p) : p \in CaseVariants(d)}
\* literal text is the user's responsibility (garbage belongs to C14): only literals that are well typed for the target
LitFor(t) == CASE t = "int" -> {"7", "1+2"} [] t = "string" -> {"\"lit\"", "\"$5.00 and ${x} and $name\""} [] t = "bool" -> {"true"} [] t = "NONE" -> {"7"} [] t = "NIn" -> {"NIn{X: 7}"} [] OTHER -> {}
LitNotes(d)  == UNION {{LitN(p, t) : t \in LitFor(TypeAt(d, p))} : p \in Targets(d) \cup {<<"N", "W">>}}
                \cup {LitN(p, "7") : p \in CaseVariants(d)}
DollarNotes(d) == {MapN(s, p) : s \in DollarPaths, p \in Targets(d) \cap {<<"A">>, <<"C">>, <<"N", "X">>, <<"S">>}}

\* a few notations per root for the interaction pairs
Small(d) == {MapN(<<Step("A2")>>, <<"A">>), MapN(<<Step("A2")>>, <<"C">>), MapN(<<Step("A2")>>, <<"N", "X">>), MapN(<<Step("Nope")>>, <<"A">>),
             ConvN("CvII", <<Step("A")>>, <<"A">>), ConvN("CvII", <<Step("A")>>, <<"N", "X">>), ConvN("CvIE", <<Step("A")>>, <<"C">>),
             LitN(<<"A">>, "7"), LitN(<<"N", "X">>, "7"), MapN(<<Step("N")>>, <<"N">>), ConvN("CvNN", <<Step("N")>>, <<"N">>),
             LitN(<<"D", "K">>, "7"), MapN(<<Dollar(2)>>, <<"N", "X">>), MapN(<<Step("A2")>>, <<"D", "In", "X">>),
             MapN(<<Dollar(2)>>, <<"D", "In", "X">>),
             \* a struct-typed member below a struct that is copyable as a whole
             MapN(<<Step("N")>>, <<"D", "In">>), ConvN("CvNIn", <<Step("N")>>, <<"D", "In">>)}
Parent(p) == SubSeq(p, 1, Len(p) - 1)
PairNotes(d) == UNION {{<<SkipN("exact", q), n>> : q \in {n.dst, Parent(n.dst)} \ {<< >>}} : n \in Small(d)}
           \cup {<<n, SkipN("exact", n.dst)>> : n \in Small(d)}
           \cup {<<n, m>> \in Small(d) \X Small(d) : n # m /\ (n.dst = m.dst \/ StrictPrefix(n.dst, m.dst))}
           \cup {<<SkipN("suffix", <<"X">>), n>> : n \in Small(d)}
           \cup {<<SkipN("tail", <<"X">>), n>> : n \in Small(d)}

Opts == [case: BOOLEAN, getter: BOOLEAN, stringer: {FALSE}, typecast: BOOLEAN, rule: {"name"}]
    \cup {[case |-> TRUE, getter |-> TRUE, stringer |-> TRUE, typecast |-> FALSE, rule |-> "name"],
          [case |-> TRUE, getter |-> FALSE, stringer |-> TRUE, typecast |-> TRUE, rule |-> "name"],
          [case |-> TRUE, getter |-> TRUE, stringer |-> FALSE, typecast |-> FALSE, rule |-> "none"],
          [case |-> FALSE, getter |-> FALSE, stringer |-> FALSE, typecast |-> TRUE, rule |-> "none"]}

Prog(r, o, e, args, notes) == [dst |-> r[1], src |-> r[2], args |-> args, retErr |-> e, o |-> o, notes |-> notes]

\* Initial programs as nested quantification (TLC enumerates it lazily; building the union of all program
\* sets as one normalised set - which TLC would do eagerly at start-up for a zero-arity definition - takes minutes).
Rest == pc = "resolve" /\ todo = << >> /\ plan = << >> /\ warns = {} /\ reject = FALSE
ProgInit(OptSet) ==
  \E r \in WRoots, o \in OptSet :
     \/ \E e \in BOOLEAN : prog = Prog(r, o, e, << >>, << >>)
     \/ \E n \in SkipNotes(r[1]) : prog = Prog(r, o, FALSE, << >>, <<n>>)
     \/ \E e \in BOOLEAN, n \in MapNotes(r[1]) : prog = Prog(r, o, e, << >>, <<n>>)
     \/ \E e \in BOOLEAN, n \in ConvNotes(r[1]) : prog = Prog(r, o, e, << >>, <<n>>)
     \/ \E n \in LitNotes(r[1]) : prog = Prog(r, o, FALSE, << >>, <<n>>)
     \/ \E a \in ArgSets, n \in DollarNotes(r[1]) : prog = Prog(r, o, FALSE, a, <<n>>)
     \/ \E e \in BOOLEAN, ns \in PairNotes(r[1]) : prog = Prog(r, o, e, <<"int">>, ns)

QuickOpts == {[case |-> TRUE, getter |-> FALSE, stringer |-> FALSE, typecast |-> FALSE, rule |-> "name"],
              [case |-> FALSE, getter |-> TRUE, stringer |-> FALSE, typecast |-> TRUE, rule |-> "name"],
              [case |-> FALSE, getter |-> FALSE, stringer |-> FALSE, typecast |-> FALSE, rule |-> "name"]}
InitAll   == ProgInit(Opts) /\ Rest
InitQuick == ProgInit(QuickOpts) /\ Rest
SpecAll   == InitAll /\ [][Next]_vars
SpecQuick == InitQuick /\ [][Next]_vars
NoPrograms == {}
=============================================================================
