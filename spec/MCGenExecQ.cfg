SPECIFICATION Spec
CONSTANTS
  KindSets <- MCKindSetsQ
INVARIANTS PreFirst PostLast AtMostOnce Complete Bounded EmitProg
PROPERTIES StopAfterFailure ErrStable Terminates
CHECK_DEADLOCK FALSE
