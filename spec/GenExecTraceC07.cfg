SPECIFICATION Spec
CONSTANTS
  Checks = {"errors"}
  TraceFile = "trace.ndjson"
  Deviations = {}
CONSTRAINT HighWater
POSTCONDITION Accepted
CHECK_DEADLOCK FALSE
