SPECIFICATION Spec
CONSTANTS
  Checks = {"errors"}
  TraceFile = "trace.ndjson"
CONSTRAINT HighWater
POSTCONDITION Accepted
CHECK_DEADLOCK FALSE
