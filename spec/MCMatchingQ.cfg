SPECIFICATION SpecQuick
CONSTANTS
  Programs <- NoPrograms
INVARIANTS NeverMentionInaccessible ExactlyOnce NothingDropped WarnPerNoMatch SkipWins ExplicitNeverDefault ErrNeedsErrResult OptInOnly Emit
CHECK_DEADLOCK FALSE
