SPECIFICATION SpecCarry
CONSTANTS
  Layouts <- NoLayouts
INVARIANTS AcceptWellFormed EveryMethod OnlySelected KeepsAllInOrder DocsKept Emit
CHECK_DEADLOCK FALSE
