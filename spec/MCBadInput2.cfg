SPECIFICATION Spec
CONSTANTS
  MaxInj = 2
INVARIANTS Orderly MustReject Positioned Emit
PROPERTY Terminates
CHECK_DEADLOCK FALSE
