SPECIFICATION Spec
CONSTANTS
  Checks = {"hooks"}
  TraceFile = "trace.ndjson"
CONSTRAINT HighWater
POSTCONDITION Accepted
CHECK_DEADLOCK FALSE
