SPECIFICATION Spec
CONSTANTS
  Checks = {"hooks"}
  TraceFile = "trace.ndjson"
  Deviations = {}
CONSTRAINT HighWater
POSTCONDITION Accepted
CHECK_DEADLOCK FALSE
