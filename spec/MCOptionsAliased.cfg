SPECIFICATION SpecAliased
INVARIANTS Scope
CHECK_DEADLOCK FALSE
