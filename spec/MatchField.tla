------------------------------ MODULE MatchField ------------------------------
(***************************************************************************)
(* Default matching of ONE destination field against ONE source candidate  *)
(* (C04, and the static side of C16): the rungs of                         *)
(* builder/assignment.go structFieldAndStructGettersAndFields / castNode / *)
(* sliceToSlice, one action per rung, over the type alphabet of TypeTable  *)
(* (generated from go/types).                                              *)
(*                                                                         *)
(* A configuration fixes destination type dt, candidate type st, the name  *)
(* relation (same / differs in case only / different), the candidate kind  *)
(* (field, getter with value receiver, getter with pointer receiver), the  *)
(* four toggles and the match rule.  The machine walks the ladder and      *)
(* accumulates the set `allowed` of outcomes the properties PERMIT for     *)
(* this destination field; it is a singleton wherever the properties fix   *)
(* the outcome and larger where they are silent (e.g. String() reachable   *)
(* only through a pointer receiver; both :stringer and :typecast apply).   *)
(* The harness runs the real tool on the concretised configuration and     *)
(* tests membership of the projected outcome.                              *)
(***************************************************************************)
EXTENDS Naturals, Sequences, FiniteSets, TLC, Json, TypeTable

CONSTANTS DstTypes, SrcTypes   \* subsets of TypeIds

NameRels  == {"same", "casevar", "other"}
CandKinds == {"field", "getterV", "getterP"}
Toggles   == [case: BOOLEAN, getter: BOOLEAN, stringer: BOOLEAN, typecast: BOOLEAN]
Rules     == {"name", "none"}
Cfg == [dt: DstTypes, st: SrcTypes, nm: NameRels, ck: CandKinds, tg: Toggles, rule: Rules]

VARIABLES cfg,      \* the configuration (never changes)
          pc,       \* rung of the ladder
          allowed,  \* outcomes permitted so far
          closed    \* TRUE once a rung fixed the outcome: no later rung may add one

vars == <<cfg, pc, allowed, closed>>

\* ---- outcomes
Out(k, t, m) == [k |-> k, t |-> t, m |-> m]
NoMatch == Out("nomatch", "", "")

DstName == "Fa"
SrcName(c) == CASE c.nm = "same" -> "Fa" [] c.nm = "casevar" -> "FA" [] OTHER -> "Gz"
IsGetter(c) == c.ck \in {"getterV", "getterP"}
Term(c) == "SRC." \o SrcName(c) \o (IF IsGetter(c) THEN "()" ELSE "")

\* ---- the candidate: is there one at all?
NameOK(c) == c.nm = "same" \/ (c.nm = "casevar" /\ ~c.tg.case)
\* getters take part only with :getter, fields only with :match name;
\* with :match none nothing is matched by name at all
CandPresent(c) == /\ c.rule = "name"
                  /\ (IsGetter(c) => c.tg.getter)
\* a method whose only result is `error` is not a getter (the tool refuses it; Go would accept
\* the assignment to an error/interface field): both outcomes are permitted
ErrGetter(c) == IsGetter(c) /\ c.st = "Err"

IsSlice(t) == Kind[t] = "slice"
\* C16: a field whose type is a defined slice type is a slice field too
IsSliceU(t) == USliceElem[t] # "NONE"
ByValueStruct(t) == Kind[t] \in {"named", "struct"} /\ UKind[t] = "struct"
Renderable(t) == Kind[t] \in {"basic", "named"}

Init == /\ cfg \in Cfg
        /\ pc = "candidate" /\ allowed = {} /\ closed = FALSE

Close(S)    == allowed' = allowed \cup S /\ closed' = TRUE
Continue(S) == allowed' = allowed \cup S /\ closed' = FALSE

\* rung 0: candidate selection by name, kind and rule
Candidate ==
  /\ pc = "candidate"
  /\ IF ~NameOK(cfg) \/ ~CandPresent(cfg)
       THEN Close({NoMatch}) /\ pc' = "done"
       ELSE IF ErrGetter(cfg)
         THEN Continue({NoMatch}) /\ pc' = "slice"
         ELSE Continue({}) /\ pc' = "slice"
  /\ UNCHANGED cfg

\* rung 1: slice to slice (C16: fresh storage; element conversion only under :typecast).
\* Two unnamed slice types: the element-wise copy is required.  When a defined slice type
\* (type Tags []string) is involved: required iff the whole value is assignable (it is a slice
\* field being copied); otherwise an element-wise copy is permitted but so is giving up.
SliceRung ==
  /\ pc = "slice"
  /\ LET es == USliceElem[cfg.st]  ed == USliceElem[cfg.dt]
         bothPlain == IsSlice(cfg.dt) /\ IsSlice(cfg.st)
         whole == <<cfg.st, cfg.dt>> \in Assignable
         copy == Out("slice", Term(cfg), "copy")  loop == Out("slice", Term(cfg), "loop")
         castloop == Out("slice", Term(cfg), "castloop") IN
     IF IsSliceU(cfg.dt) /\ IsSliceU(cfg.st) /\ es # "NONE" /\ ed # "NONE"
       THEN IF es = ed /\ (bothPlain \/ whole)
              THEN Close({copy, loop}) /\ pc' = "done"
            ELSE IF <<es, ed>> \in Assignable
              THEN IF bothPlain THEN Close({loop}) /\ pc' = "done"
                                ELSE Continue({loop}) /\ pc' = "assign"
            ELSE IF cfg.tg.typecast /\ <<es, ed>> \in ConvertibleOnly
              THEN IF bothPlain THEN Close({castloop}) /\ pc' = "done"
                                ELSE Continue({castloop}) /\ pc' = "assign"
            ELSE Continue({}) /\ pc' = "assign"
       ELSE Continue({}) /\ pc' = "assign"
  /\ UNCHANGED cfg

\* rung 2: plain assignment when Go allows it
AssignRung ==
  /\ pc = "assign"
  /\ IF <<cfg.st, cfg.dt>> \in Assignable /\ ~(IsSliceU(cfg.dt) /\ IsSliceU(cfg.st))
       THEN Close({Out("assign", Term(cfg), "")}) /\ pc' = "done"
       ELSE Continue({}) /\ pc' = "stringer"
  /\ UNCHANGED cfg

\* rung 3: String() when opted in and the target takes a string
StringerRung ==
  /\ pc = "stringer"
  /\ LET applies == cfg.tg.stringer /\ <<"string", cfg.dt>> \in Assignable
         castToo == cfg.tg.typecast /\ <<cfg.st, cfg.dt>> \in ConvertibleOnly IN
     IF applies /\ cfg.st \in HasStringV
       THEN IF castToo THEN Continue({Out("str", Term(cfg) \o ".String()", "")}) /\ pc' = "typecast"
                       ELSE Close({Out("str", Term(cfg) \o ".String()", "")}) /\ pc' = "done"
     ELSE IF applies /\ cfg.st \in HasStringP
       THEN Continue({Out("str", Term(cfg) \o ".String()", "")}) /\ pc' = "typecast"   \* permitted, not required
       ELSE Continue({}) /\ pc' = "typecast"
  /\ UNCHANGED cfg

\* rung 4: explicit conversion when opted in and Go can convert
TypecastRung ==
  /\ pc = "typecast"
  /\ IF cfg.tg.typecast /\ <<cfg.st, cfg.dt>> \in ConvertibleOnly
       THEN IF Renderable(cfg.dt)
              THEN Close({Out("cast", "cast[" \o TypeExpr[cfg.dt] \o "](" \o Term(cfg) \o ")", "")}) /\ pc' = "done"
              \* a conversion to an unnamed composite / pointer type: a correct cast is permitted, so is giving up
              ELSE Continue({Out("cast", "cast[" \o TypeExpr[cfg.dt] \o "](" \o Term(cfg) \o ")", "")}) /\ pc' = "nest"
       ELSE Continue({}) /\ pc' = "nest"
  /\ UNCHANGED cfg

\* rung 5: by-value structs of different type are copied member by member
NestRung ==
  /\ pc = "nest"
  /\ IF ByValueStruct(cfg.dt) /\ ByValueStruct(cfg.st)
       THEN Close({Out("nest", Term(cfg), "")}) /\ pc' = "done"
       \* nothing definite was found: giving up is permitted (and required if nothing optional was found either)
       ELSE Close({NoMatch}) /\ pc' = "done"
  /\ UNCHANGED cfg

Next == Candidate \/ SliceRung \/ AssignRung \/ StringerRung \/ TypecastRung \/ NestRung
Spec == Init /\ [][Next]_vars

Done == pc = "done"

----------------------------------------------------------------------------
(* C04 on the model *)
Kinds == {o.k : o \in allowed}
\* no conversion, String() call or getter call without its opt-in
OptInOnly == Done => /\ ("cast" \in Kinds => cfg.tg.typecast)
                     /\ ("str" \in Kinds => cfg.tg.stringer)
                     /\ (\E o \in allowed : o.m = "castloop") => cfg.tg.typecast
                     /\ (IsGetter(cfg) /\ Kinds # {"nomatch"} => cfg.tg.getter)
\* with :match none nothing is matched by name
NoneMeansNone == Done /\ cfg.rule = "none" => allowed = {NoMatch}
\* a different name never matches; a case variant only with :case:off
NameRule == Done /\ ~NameOK(cfg) => allowed = {NoMatch}
\* assignable same-named candidates are always taken (no spurious no-match)
AssignableTaken == Done /\ NameOK(cfg) /\ CandPresent(cfg) /\ ~ErrGetter(cfg) /\ <<cfg.st, cfg.dt>> \in Assignable
                     => NoMatch \notin allowed
\* every configuration gets at least one permitted outcome
Total == Done => allowed # {}
\* C16 (static): a slice field is never plainly assigned
SliceNeverAssigned == Done /\ IsSliceU(cfg.dt) /\ IsSliceU(cfg.st) => "assign" \notin Kinds

Emit == Done => PrintT(<<"CASE", ToJson([cfg |-> cfg, allowed |-> allowed])>>)
=============================================================================
