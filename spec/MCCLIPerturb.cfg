SPECIFICATION Spec
CONSTANTS
  Accepted = {"v1", "v2"}
  Rejected <- RejectedPerturb
  TruncPoints = {}
  Spellings = {"rel", "abs", "gofile", "both", "link", "linkout"}
  Placement = "file"
  Cwds = {"pkg", "root", "sibling", "outside", "pkglink"}
  RecordHist = FALSE
  MaxHist = 0
  FlagSets <- AllFlags
  EnvActions = {"remove"}
VIEW View
INVARIANTS TypeOK FrameRest LogInert
PROPERTIES FailLeavesOut DryLeavesOut Regenerated PrintEqualsWritten Idempotent
CHECK_DEADLOCK FALSE
