SPECIFICATION Spec
CONSTANTS
  Accepted = {"v1"}
  Rejected = {}
  TruncPoints <- TruncAll
  Spellings = {"rel"}
  Placement = "file"
  Cwds = {"pkg"}
  RecordHist = FALSE
  MaxHist = 0
  FlagSets <- CrashFlags
  EnvActions = {"crash", "crashC", "extend"}
VIEW View
CONSTRAINT OneTarget
INVARIANTS TypeOK FrameRest
PROPERTIES Regenerated ExitIgnoresOut Idempotent
CHECK_DEADLOCK FALSE
