SPECIFICATION Spec
CONSTANTS
  Accepted = {"v1"}
  Rejected = {}
  TruncPoints <- TruncAll
  Spellings = {"rel"}
  Cwds = {"pkg"}
  RecordHist = FALSE
  MaxHist = 0
  FlagSets <- DefaultFlags
  EnvActions = {"crash", "extend"}
VIEW View
INVARIANTS TypeOK FrameRest
PROPERTIES Regenerated ExitIgnoresOut Idempotent
CHECK_DEADLOCK FALSE
