SPECIFICATION Spec
CONSTANTS
  Checks = {"slices"}
  TraceFile = "trace.ndjson"
  Deviations = {}
CONSTRAINT HighWater
POSTCONDITION Accepted
CHECK_DEADLOCK FALSE
