SPECIFICATION Spec
CONSTANTS
  Checks = {"slices"}
  TraceFile = "trace.ndjson"
CONSTRAINT HighWater
POSTCONDITION Accepted
CHECK_DEADLOCK FALSE
