------------------------------ MODULE Hooks ------------------------------
(***************************************************************************)
(* C10 (static side): fitting a :preprocess / :postprocess function to a   *)
(* method, and the call that is emitted.  Mirrors parser/comment.go        *)
(* lookupManipulatorFunc (lookup, result shape), builder/postprocess.go    *)
(* buildManipulator (export, error compatibility, operand and additional   *)
(* argument types) and generator/manipulator.go ManipulatorToString (the   *)
(* "&" / "*" adaptation), one action per step.                             *)
(*                                                                         *)
(* A hook fits iff it is a function (exported when imported) with at least *)
(* two parameters whose first two are the method's destination and source  *)
(* types up to one level of pointer, it returns nothing or error (error    *)
(* only when the method has an error result), and it declares either no    *)
(* further parameters or exactly the method's additional arguments.        *)
(* The call passes the function's OWN destination and source, adapted to   *)
(* the pointer-ness the hook declares, from the operands as they are       *)
(* declared in the generated header (arg style: destination is a pointer). *)
(***************************************************************************)
EXTENDS Naturals, Sequences, FiniteSets, TLC, Json

Styles == {"return", "arg"}
\* funcVar: a package-level VARIABLE that holds a function of fitting type - callable like any function
\* importedBlank: a function of a package that the setup file imports BLANK, for the notation alone, and whose
\* declared name (hk) is not the last element of its path (hkp/v2)
HookKinds == {"ok", "funcVar", "imported", "importedBlank", "importedUnexported", "arity0", "arity1", "dstMismatch", "srcMismatch",
              "twoResults", "nonErrResult", "errImplResult", "notFunc", "missing"}
\* errImplResult: the single result is a pointer type that IMPLEMENTS error - assigned to err it would never be nil
\* further parameters of the hook relative to the additional arguments (int, string) of the method:
\* none; all of them with their types; fewer; other types; "wider": the first one declared as interface{},
\* to which the method's argument is assignable
Extras == {"none", "all", "fewer", "wrong", "wider"}
\* argAny: the method's first additional argument is an interface{} (then an int parameter of the hook is too narrow)
\* shared: the same hook function also serves an earlier method of the interface, which it fits
\* namesake: an earlier method of the interface has a hook of ANOTHER package that is called the same (a local
\* Audit next to ext.Audit) and has another shape; a hook is a function, not a name
Cfg == [style: Styles, recv: BOOLEAN, srcPtr: BOOLEAN, dstPtr: BOOLEAN, retErr: BOOLEAN, nargs: {0, 2},
        which: {"pre", "post"}, hDstPtr: BOOLEAN, hSrcPtr: BOOLEAN, hErr: BOOLEAN, hExtra: Extras, kind: HookKinds,
        argAny: BOOLEAN, shared: BOOLEAN, namesake: BOOLEAN]

\* configurations that make sense: extra-parameter variants need additional arguments to relate to;
\* the shape variants of a broken hook are explored with the simplest pointer/extra choice
Sensible(c) == /\ (c.nargs = 0 => c.hExtra = "none")
               /\ (c.kind \notin {"ok", "imported", "importedBlank", "funcVar"} => c.hExtra = "none" /\ c.hDstPtr /\ c.hSrcPtr)
               /\ (c.kind = "funcVar" => c.hExtra \in {"none", "all"} /\ ~c.recv)
               /\ (c.kind \in {"twoResults", "nonErrResult", "errImplResult"} => ~c.hErr)
               \* an imported hook needs imported operand types, and an imported source cannot be a receiver (C08)
               /\ (c.kind \in {"imported", "importedBlank", "importedUnexported"} => ~c.recv)
               \* the imported package offers hooks with no or with all additional parameters only
               /\ (c.kind \in {"imported", "importedBlank"} => c.hExtra \in {"none", "all"})
               /\ (c.argAny => c.nargs = 2 /\ c.kind = "ok" /\ c.hExtra \in {"all", "wider"} /\ c.style = "return" /\ ~c.recv)
               /\ (c.hExtra = "wider" => c.kind = "ok")
               \* a second user of the hook is explored for local hooks, on the plainest method shape
               /\ (c.shared => c.kind = "ok" /\ ~c.recv /\ ~c.argAny)
               /\ (c.namesake => c.kind \in {"ok", "imported"} /\ ~c.recv /\ ~c.argAny /\ ~c.shared /\ c.nargs = 0 /\ c.style = "return")

VARIABLES cfg, pc, fit
vars == <<cfg, pc, fit>>

NoCall == [name |-> "", args |-> << >>, err |-> FALSE, pos |-> ""]
Init == cfg \in {c \in Cfg : Sensible(c)} /\ pc = "lookup" /\ fit = [reject |-> FALSE, call |-> NoCall]
Reject == fit' = [reject |-> TRUE, call |-> NoCall] /\ pc' = "done"

\* step 1: lookup and result shape (parser/comment.go lookupManipulatorFunc)
Lookup ==
  /\ pc = "lookup"
  /\ IF cfg.kind \in {"missing", "notFunc", "twoResults", "nonErrResult", "errImplResult", "arity0", "arity1"}
       THEN Reject
       ELSE pc' = "check" /\ UNCHANGED fit
  /\ UNCHANGED cfg

\* step 2: export, error compatibility, operand types, additional arguments (builder/postprocess.go)
Check ==
  /\ pc = "check"
  /\ IF cfg.kind = "importedUnexported" THEN Reject
     ELSE IF cfg.hErr /\ ~cfg.retErr THEN Reject
     ELSE IF cfg.kind \in {"dstMismatch", "srcMismatch"} THEN Reject
     ELSE IF cfg.hExtra \in {"fewer", "wrong"} THEN Reject
     \* every additional argument must be assignable to the parameter that receives it
     ELSE IF cfg.argAny /\ cfg.hExtra = "all" THEN Reject
     ELSE pc' = "render" /\ UNCHANGED fit
  /\ UNCHANGED cfg

Adapt(operandPtr, hookPtr, v) == IF operandPtr = hookPtr THEN v ELSE IF operandPtr THEN "*" \o v ELSE "&" \o v

\* step 3: the call (generator/manipulator.go)
Render ==
  /\ pc = "render"
  /\ LET dstIsPtr == cfg.style = "arg" \/ cfg.dstPtr      \* as declared in the generated header
         args == <<Adapt(dstIsPtr, cfg.hDstPtr, "DST"), Adapt(cfg.srcPtr, cfg.hSrcPtr, "SRC")>>
                 \o (IF cfg.hExtra \in {"all", "wider"} THEN <<"ARG0", "ARG1">> ELSE << >>)
         name == CASE cfg.kind = "imported" -> "ext.Hook" [] cfg.kind = "importedBlank" -> "hk.Hook" [] OTHER -> "Hook" IN
     fit' = [reject |-> FALSE, call |-> [name |-> name, args |-> args, err |-> cfg.hErr, pos |-> cfg.which]]
  /\ pc' = "done"
  /\ UNCHANGED cfg

Next == Lookup \/ Check \/ Render
Spec == Init /\ [][Next]_vars
Done == pc = "done"

----------------------------------------------------------------------------
(* C10 / C07 on the model *)
Fits(c) == /\ c.kind \in {"ok", "imported", "importedBlank", "funcVar"}
           /\ (c.hErr => c.retErr)
           /\ c.hExtra \in {"none", "all", "wider"}
           /\ ~(c.argAny /\ c.hExtra = "all")
UnfitRejected == Done => (fit.reject <=> ~Fits(cfg))
\* C07: an error-returning hook is never wired into a function without error result
ErrNeedsErrResult == Done /\ ~fit.reject /\ fit.call.err => cfg.retErr
\* destination first, source second, additional arguments in order iff declared
OperandOrder == Done /\ ~fit.reject =>
                  /\ fit.call.args[1] \in {"DST", "&DST", "*DST"}
                  /\ fit.call.args[2] \in {"SRC", "&SRC", "*SRC"}
                  /\ (cfg.hExtra \in {"all", "wider"} <=> Len(fit.call.args) = 4)
\* never take the address of a pointer operand nor dereference a value
AdaptSound == Done /\ ~fit.reject =>
                LET dstIsPtr == cfg.style = "arg" \/ cfg.dstPtr IN
                  /\ (fit.call.args[1] = "&DST" => ~dstIsPtr /\ cfg.hDstPtr)
                  /\ (fit.call.args[1] = "*DST" => dstIsPtr /\ ~cfg.hDstPtr)
                  /\ (fit.call.args[2] = "&SRC" => ~cfg.srcPtr /\ cfg.hSrcPtr)
                  /\ (fit.call.args[2] = "*SRC" => cfg.srcPtr /\ ~cfg.hSrcPtr)

\* the verdict on a hook is a matter of this method and this hook alone: whether the function also
\* serves another method, or another function of the same name serves one, changes nothing (Fits and Render
\* read neither cfg.shared nor cfg.namesake)
Emit == Done => PrintT(<<"CASE", ToJson([cfg |-> cfg, fit |-> fit])>>)
=============================================================================
