------------------------------ MODULE SkipOptions ------------------------------
(***************************************************************************)
(* The part of option.Options that C19 (and C06's :skip clause) rely on:   *)
(* a method's notations are parsed in order; ":case" / ":case:off" set the *)
(* case rule, ":skip p" appends a PatternMatcher compiled FOR THE CASE     *)
(* RULE IN FORCE AT THAT MOMENT; afterwards every destination path is      *)
(* asked ShouldSkip(path) under the FINAL case rule, and field names are   *)
(* compared with CompareFieldName.  So a ":skip" that precedes ":case:off" *)
(* holds a matcher compiled for the wrong rule - the stateful recompile of *)
(* Matcher.tla is what makes the answer right anyway.                      *)
(*                                                                         *)
(* Each behaviour is a notation sequence followed by queries; it is        *)
(* replayed (a) on a real option.Options value and (b) end to end through  *)
(* the command line: the notations become the method's doc comment, the    *)
(* queried paths become destination fields, and the "// skip:" lines of    *)
(* the generated function are compared with the answers.                   *)
(***************************************************************************)
EXTENDS MatcherRef

CONSTANTS Pats, Paths, MaxNotes, NamePairs

VARIABLES exact,     \* Options.ExactCase
          skips,     \* Options.SkipFields: sequence of [pat, compiledCI]
          notes,     \* notation history (never overwritten): <<[k |-> "case"|"caseoff"|"skip", p |-> pattern]>>
          phase,     \* "parse" -> "query" -> "done"
          answers    \* function: path -> BOOLEAN, filled in the query phase; names: pair -> BOOLEAN

vars == <<exact, skips, notes, phase, answers>>
NoPat == [kind |-> "plain", re |-> Bol, pl |-> << >>]

Init == /\ exact = TRUE /\ skips = << >> /\ notes = << >> /\ phase = "parse"
        /\ answers = [skip |-> << >>, name |-> << >>]

NoteCase(c) == /\ phase = "parse" /\ Len(notes) < MaxNotes
               /\ exact' = c
               /\ notes' = Append(notes, [k |-> IF c THEN "case" ELSE "caseoff", p |-> NoPat])
               /\ UNCHANGED <<skips, phase, answers>>

NoteSkip(p) == /\ phase = "parse" /\ Len(notes) < MaxNotes
               /\ Len(skips) < 2
               /\ skips' = Append(skips, [pat |-> p, compiledCI |-> ~exact])
               /\ notes' = Append(notes, [k |-> "skip", p |-> p])
               /\ UNCHANGED <<exact, phase, answers>>

EndParse == /\ phase = "parse" /\ Len(notes) >= 1 /\ Len(skips) >= 1
            /\ phase' = "query"
            /\ UNCHANGED <<exact, skips, notes, answers>>

\* ShouldSkip: every matcher is brought to the final case rule, then asked.
AskAll == /\ phase = "query"
          /\ skips' = [k \in DOMAIN skips |-> [skips[k] EXCEPT !.compiledCI = ~exact]]
          /\ answers' = [skip |-> [k \in 1..Len(Paths) |->
                                     [s |-> Paths[k],
                                      ans |-> \E j \in DOMAIN skips :
                                                IF skips[j].pat.kind = "re" THEN Search(skips[j].pat.re, Paths[k], ~exact)
                                                ELSE PlainEq(skips[j].pat.pl, Paths[k], ~exact)]],
                         name |-> [k \in 1..Len(NamePairs) |->
                                     [a |-> NamePairs[k][1], b |-> NamePairs[k][2],
                                      ans |-> PlainEq(NamePairs[k][1], NamePairs[k][2], ~exact),
                                      \* :map / :conv / :literal destination paths: always exact
                                      eq  |-> RefExact(NamePairs[k][1], NamePairs[k][2])]]]
          /\ phase' = "done"
          /\ UNCHANGED <<exact, notes>>

Next == \/ \E c \in BOOLEAN : NoteCase(c)
        \/ \E p \in Pats : NoteSkip(p)
        \/ EndParse
        \/ AskAll
Spec == Init /\ [][Next]_vars

\* C19/C06: the answers depend on (patterns, path, FINAL case rule) only - not on the
\* rule that was in force when the :skip line was read.
OrderFree == phase = "done" =>
               \A k \in DOMAIN answers.skip :
                  answers.skip[k].ans = RefShouldSkip([j \in DOMAIN skips |-> skips[j].pat], answers.skip[k].s, exact)
NameRule == phase = "done" =>
               \A k \in DOMAIN answers.name : answers.name[k].ans = RefName(answers.name[k].a, answers.name[k].b, exact)
LastCaseWins == phase # "parse" =>
               exact = (LET cs == SelectSeq(notes, LAMBDA n : n.k # "skip") IN
                        IF cs = << >> THEN TRUE ELSE cs[Len(cs)].k = "case")

Emit == phase = "done" => PrintT(<<"O", ToJson([notes |-> notes, exact |-> exact, answers |-> answers])>>)
=============================================================================
