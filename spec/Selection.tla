------------------------------ MODULE Selection ------------------------------
(***************************************************************************)
(* What becomes of a setup file (C03, C11, C17): which interfaces are      *)
(* converted, where their functions go, and what is carried over.  The     *)
(* input is a sequence of ITEMS (declarations, interfaces, floating        *)
(* comments) plus file-level attributes; the machine scans the items in    *)
(* order - as parser/interface.go findConvergenEntries selects, and        *)
(* parser/parser.go GenerateBaseCode + generator generateContent cut and   *)
(* substitute - and builds the sequence of output items.                   *)
(*                                                                         *)
(* Items carry LAYOUT attributes (length of the interface body relative to *)
(* the 21-character placeholder marker, one-line form, comments at every   *)
(* position, blank lines to the neighbour).  The ideal specification       *)
(* ignores them: that acceptance and carry-over do not depend on them IS   *)
(* the property (C03).  The implementation's cut is position arithmetic,   *)
(* so the harness varies exactly these attributes.                         *)
(***************************************************************************)
EXTENDS Naturals, Sequences, FiniteSets, TLC, Json

CONSTANTS Layouts     \* set of [items : Seq(Item), pkgdoc, build, imports, sibling, embed, pkggen]

(* Item kinds
   [k |-> "decl", id, form (var|func|type|const), doc, trail, gen]        gen: a go:generate line sits in/above its doc
   [k |-> "intf", id, named (TRUE: the interface is called Convergen), marked (doc has a :convergen line),
         lookalike (doc has marker-like text that is no marker), doc (own non-notation doc lines), gen,
         nmeth, short, oneline, mdoc, trail, after, gap, long (a comment line much longer than the directive line below it),
         nm (how the interface is called relative to the file's other converter interface: std | prefix | long),
         mention (a PROSE line of the doc comment - of each method's doc comment for a converter interface - names a
         directive such as //go:generate in the middle of the line; prose is carried over / forwarded like any other line),
         gen2 (the go:generate line is followed directly by a second directive line)]
   Layouts with pkggen also hold a declaration on ONE line of some 70 000 characters (a literal table) above the items.
   The prose of method docs (mdoc) holds characters that are special to templates and format strings ($name, ${name}, $1, %d).
   [k |-> "tmark", id]     a non-interface type whose doc carries a :convergen line
   [k |-> "vmark", id]     a VARIABLE of an interface type whose doc carries a :convergen line (no interface declaration)
   [k |-> "float", id]     a comment attached to nothing
   sibling: "none" | "marked" | "named"   another file of the package with a marked / Convergen-named interface
   embed:   "none" | "file" | "sibling"   the first converter interface embeds an unmarked interface with one method,
            declared in this file (the item with id "emb") or in a sibling file: the methods of a converter
            interface are its method set (parser/method.go parseMethods), so the embedded method gets a
            function too, while the embedded interface itself stays what it is;
            "dup": it embeds TWO unmarked interfaces of this file (ids "emb", "emb2") that both declare that one method
            with the same signature; "redecl": it embeds one and declares the same method again itself.  Either way
            the method is ONE member of the method set and gets one function *)

VARIABLES layout, i, out, rejected, pc
vars == <<layout, i, out, rejected, pc>>

Items == layout.items
IsIntf(it) == it.k = "intf"
\* C17: converted iff declared in the input file AND (named Convergen OR doc has a :convergen line)
Selected(it) == IsIntf(it) /\ (it.named \/ it.marked)
SelectedIdx == {j \in DOMAIN Items : Selected(Items[j])}

Init == /\ layout \in Layouts
        /\ i = 1 /\ out = << >> /\ rejected = FALSE /\ pc = "find"

\* findConvergenEntries: no converter interface in the input file -> the run is rejected.
\* Interfaces of sibling files do not count, marked or not.
Find == /\ pc = "find"
        /\ IF SelectedIdx = {} THEN rejected' = TRUE /\ pc' = "done"
                               ELSE rejected' = FALSE /\ pc' = "scan"
        /\ UNCHANGED <<layout, i, out>>

Methods(it) == 1..it.nmeth
FirstSelected == CHOOSE j \in SelectedIdx : \A k \in SelectedIdx : j <= k
\* number of functions a converter interface yields: one per method of its method set
NFuncs(j) == Items[j].nmeth + (IF layout.embed # "none" /\ j = FirstSelected THEN 1 ELSE 0)
\* output items
ODecl(it)  == [k |-> "decl", id |-> it.id, doc |-> it.doc, trail |-> it.trail, nf |-> 0]
OIntf(it)  == [k |-> "intf", id |-> it.id, doc |-> it.doc, trail |-> FALSE, nf |-> 0]
OFuncs(j)  == [k |-> "funcs", id |-> Items[j].id, doc |-> Items[j].mdoc, trail |-> FALSE, nf |-> NFuncs(j)]   \* one function per method; doc = method docs forwarded
OType(it)  == [k |-> "decl", id |-> it.id, doc |-> TRUE, trail |-> FALSE, nf |-> 0]

Scan == /\ pc = "scan" /\ i <= Len(Items)
        /\ LET it == Items[i] IN
           out' = CASE it.k = "decl"  -> Append(out, ODecl(it))
                    [] it.k \in {"tmark", "vmark"} -> Append(out, OType(it))       \* a marked non-interface declaration is just a declaration
                    [] it.k = "float" -> out                                      \* floating comments are not demanded
                    [] Selected(it)   -> Append(out, OFuncs(i))                   \* replaced IN PLACE by its functions
                    [] OTHER          -> Append(out, OIntf(it))                   \* any other interface is carried over untouched
        /\ i' = i + 1
        /\ UNCHANGED <<layout, rejected, pc>>

Finish == pc = "scan" /\ i > Len(Items) /\ pc' = "done" /\ UNCHANGED <<layout, i, out, rejected>>

Next == Find \/ Scan \/ Finish
Spec == Init /\ [][Next]_vars
Done == pc = "done"

----------------------------------------------------------------------------
(* the properties on the model *)
OutIds == [j \in DOMAIN out |-> out[j].id]
\* C03: a layout all of whose items are well formed is accepted whenever it has a converter interface -
\* whatever the layout attributes are - and every method gets its function
AcceptWellFormed == Done => (rejected <=> SelectedIdx = {})
EveryMethod == Done /\ ~rejected => \A j \in SelectedIdx : \E o \in DOMAIN out : out[o].k = "funcs" /\ out[o].id = Items[j].id
\* C17: one function per method of the method set, embedded methods included
OnePerMethod == Done /\ ~rejected => \A o \in DOMAIN out : out[o].k = "funcs" =>
   \E j \in SelectedIdx : Items[j].id = out[o].id /\ out[o].nf = NFuncs(j) /\ out[o].nf >= Items[j].nmeth
\* C17: only selected interfaces are converted; every other interface survives
OnlySelected == Done /\ ~rejected =>
   \A j \in DOMAIN Items : IsIntf(Items[j]) =>
      \E o \in DOMAIN out : out[o].id = Items[j].id /\ (out[o].k = "funcs" <=> Selected(Items[j]))
\* C11: everything else is kept, once, in order; blocks sit where their interface was
KeepsAllInOrder == Done /\ ~rejected =>
   OutIds = [j \in 1..Len(SelectSeq(Items, LAMBDA it : it.k # "float")) |-> SelectSeq(Items, LAMBDA it : it.k # "float")[j].id]
\* C11: doc and trailing comments stay with their declaration; method docs are forwarded
DocsKept == Done /\ ~rejected =>
   \A o \in DOMAIN out : \A j \in DOMAIN Items : Items[j].id = out[o].id =>
      CASE out[o].k = "decl" /\ Items[j].k = "decl" -> out[o].doc = Items[j].doc /\ out[o].trail = Items[j].trail
        [] out[o].k = "funcs" -> out[o].doc = Items[j].mdoc
        [] OTHER -> TRUE

Emit == Done => PrintT(<<"CASE", ToJson([layout |-> layout, rejected |-> rejected, out |-> out])>>)
=============================================================================
