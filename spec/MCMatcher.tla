------------------------------ MODULE MCMatcher ------------------------------
(* Bounded models of Matcher: pattern and path alphabets for the quick and the
   thorough tier.  cfg files cannot hold records, so the sets live here. *)
EXTENDS Matcher

\* ---- pattern alphabets
LitCharsQ == {"a", "K", "e", "DOT", "LONGS"}
LitCharsT == {"a", "K", "e", "DOT", "LONGS", "A", "SIGMA", "US", "1"}
ClsQ == {Cls({"a", "k"}, FALSE), Cls({"a", "K"}, TRUE)}
ClsT == ClsQ \cup {Cls({"A", "S"}, FALSE), Cls({"KELVIN"}, TRUE), Cls({"e", "1", "DOT"}, FALSE), Cls({"fsigma"}, FALSE)}
Perls == {Perl(k) : k \in {"w", "W", "d", "D", "s", "S"}}

\* spellings without a cased letter whose meaning still depends on the case rule
Caseless == {Rng("1", "US"), Esc("K")}
AtomsOf(L, C) == {Lit(c) : c \in L} \cup {AnyCh} \cup C \cup Perls \cup Caseless
Quant(a) == {a, Star(a), Plus(a), Opt(a), Rep12(a)}
Level1(A) == UNION {Quant(a) : a \in A}
RegexOf(A) == Level1(A) \cup {Cat(x, y) : x \in A, y \in Level1(A)} \cup {Alt(x, y) : x \in A, y \in A}
              \cup {Cat(Bol, x) : x \in Level1(A)} \cup {Cat(x, Eol) : x \in Level1(A)}
              \cup {Cat(Bol, Cat(x, Eol)) : x \in Level1(A)}
              \cup {Cat(Wb, x) : x \in A} \cup {Cat(x, Wb) : x \in A}

\* a slash on one side only does not make a regular expression: such a pattern is plain (and equals no path)
PlainQ == {<<"SLASH", "a">>, <<"a", "SLASH">>, <<"SLASH">>, <<"SLASH", "K", "e">>, <<"a">>, <<"A", "K">>, <<"KELVIN">>, <<"a", "DOT", "K">>, <<"LONGS", "e">>, <<"e", "1">>, <<"K", "e", "e">>}
PlainT == PlainQ \cup {<<"SIGMA">>, <<"fsigma", "a">>, <<"a", "US", "K">>, <<"s", "DOT", "S", "DOT", "a">>, << >>}

MCPatsQ == {RePat(r) : r \in RegexOf(AtomsOf(LitCharsQ, ClsQ))} \cup {PlainPat(p) : p \in PlainQ}
MCPatsT == {RePat(r) : r \in RegexOf(AtomsOf(LitCharsT, ClsT))} \cup {PlainPat(p) : p \in PlainT}

\* ---- path alphabets (identifier characters and the path separator)
PathCharsQ == {"a", "A", "K", "KELVIN", "e", "s", "DOT", "1"}
PathCharsT == PathCharsQ \cup {"k", "S", "LONGS", "sigma", "fsigma", "SIGMA", "US"}
Special == {<<"a", "DOT", "K">>, <<"K", "e", "e">>, <<"s", "a", "e">>, <<"a", "e", "K">>, <<"LONGS", "e">>, <<"A", "DOT", "k">>}
MCPathsQ == UNION {[1..n -> PathCharsQ] : n \in 0..2} \cup Special
MCPathsT == UNION {[1..n -> PathCharsT] : n \in 0..2} \cup UNION {[1..3 -> PathCharsQ]} \cup Special

\* ---- sequence model: few patterns whose answer depends on the case rule, few paths, three queries
MCPatsSeq == {RePat(Cat(Bol, Cat(Lit("a"), Eol))), RePat(Lit("K")), RePat(Cat(Perl("S"), Lit("e"))), RePat(Perl("W")),
              RePat(Cls({"a", "K"}, TRUE)), RePat(Cat(Bol, Plus(Cls({"a", "k"}, FALSE)))), RePat(Alt(Lit("LONGS"), Lit("e"))),
              RePat(Cat(Wb, Lit("K"))), RePat(Star(Lit("a"))), RePat(Cat(Lit("a"), Cat(AnyCh, Lit("K")))),
              RePat(Perl("D")), RePat(Cat(Lit("DOT"), Lit("K"))), RePat(Cat(Bol, Cat(Plus(Rng("1", "US")), Eol))), RePat(Esc("K")), RePat(Cat(Esc("A"), Rng("1", "US"))), RePat(Cat(Bol, Cat(Rep12(Lit("a")), Eol))), RePat(Rep12(Cls({"a", "K"}, FALSE)))}
             \cup {PlainPat(p) : p \in PlainQ}
MCPathsSeq == {<<"a">>, <<"A">>, <<"A", "K">>, <<"a", "DOT", "k">>, <<"KELVIN", "e", "e">>, <<"s", "e">>, <<"e", "1">>, << >>}
=============================================================================
