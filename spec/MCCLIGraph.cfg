SPECIFICATION Spec
CONSTANTS
  Accepted = {"v1", "v2"}
  Rejected <- RejectedAll
  TruncPoints <- TruncClasses
  Spellings = {"rel"}
  Placement = "file"
  Cwds = {"pkg"}
  RecordHist = FALSE
  MaxHist = 0
  FlagSets <- AllFlags
  EnvActions <- AllEnv
VIEW View
INVARIANTS TypeOK FrameRest LogInert
PROPERTIES SetupOnlyByEdit FailLeavesOut DryLeavesOut Regenerated ExitIgnoresOut Idempotent PrintEqualsWritten
CHECK_DEADLOCK FALSE
