SPECIFICATION Spec
CONSTANTS
  Pats <- MCPatsT
  Paths <- MCPathsT
  SeqPaths <- MCPathsSeq
  MaxQ = 1
INVARIANTS HistoryFree PlainIsEquality Emit
CHECK_DEADLOCK FALSE
