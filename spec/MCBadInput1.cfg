SPECIFICATION Spec
CONSTANTS
  MaxInj = 1
INVARIANTS Orderly MustReject Positioned Emit
PROPERTY Terminates
CHECK_DEADLOCK FALSE
