------------------------------ MODULE MCGenExec ------------------------------
EXTENDS GenExec
\* every kind alone, every pair, and a few larger sets incl. all kinds at once
Singles == {{k} : k \in AllKinds}
Pairs   == {{a, b} : a \in AllKinds, b \in AllKinds}
Big     == {AllKinds, AllKinds \ {"arg", "argnest"}, ErrKinds \cup {"field", "nest"}, {"convE", "nestE", "nestE2", "mapE", "getter", "str"},
            {"slcopy", "slloop", "slcast", "sltags", "slget", "slptr", "slstruct", "slbyte", "slbtag", "slext", "slextp", "slnest", "slhid", "ptr"}, {"field", "cast", "arg", "argnest", "lit", "skip", "skipci", "sibpfx", "nomatch", "npath", "twin", "mapptr"}}
MCKindSets == Singles \cup Pairs \cup Big
MCKindSetsQ == Singles \cup Big \cup {{a, b} : a \in ErrKinds, b \in AllKinds}
=============================================================================
