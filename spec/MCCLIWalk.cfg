SPECIFICATION Spec
CONSTANTS
  Accepted = {"v1", "v2"}
  Rejected <- RejectedAll
  TruncPoints <- TruncClasses
  Spellings = {"rel", "abs", "gofile", "both"}
  Cwds = {"pkg", "root", "sibling", "outside"}
  RecordHist = TRUE
  MaxHist = 14
  FlagSets <- AllFlags
  EnvActions <- AllEnv
INVARIANTS TypeOK FrameRest EmitWalk
CHECK_DEADLOCK FALSE
