SPECIFICATION Spec
CONSTANTS
  Accepted = {"v1", "v2"}
  Rejected <- RejectedAll
  TruncPoints <- TruncClasses
  Spellings = {"rel", "abs", "gofile", "both", "link", "linkout"}
  Placement = "file"
  Cwds = {"pkg", "root", "sibling", "outside", "pkglink"}
  RecordHist = TRUE
  MaxHist = 14
  FlagSets <- AllFlags
  EnvActions <- AllEnv
INVARIANTS TypeOK FrameRest EmitWalk
CHECK_DEADLOCK FALSE
