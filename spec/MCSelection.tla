------------------------------ MODULE MCSelection ------------------------------
(* Layout families for Selection: acceptance (C03), carry-over (C11), selection (C17).
   All items share one record shape (unused attributes at neutral values). *)
EXTENDS Selection

B == BOOLEAN
Item(k, id, form, doc, trail, gen, named, marked, lookalike, nmeth, short, oneline, mdoc, after, gap) ==
  [k |-> k, id |-> id, form |-> form, doc |-> doc, trail |-> trail, gen |-> gen, named |-> named, marked |-> marked,
   lookalike |-> lookalike, nmeth |-> nmeth, short |-> short, oneline |-> oneline, mdoc |-> mdoc, after |-> after, gap |-> gap,
   long |-> FALSE, nm |-> "std", mention |-> FALSE, gen2 |-> FALSE]
\* long: the first line of the item's comment is much longer than the directive line below it
WithLong(it) == [it EXCEPT !.long = TRUE]
\* mention: a prose line of the item's doc comment (for a converter interface: of each method's doc comment) names a
\* directive in the middle of the line ("... see //go:generate in the manual"); it is prose and stays where it is
WithMention(it, m) == [it EXCEPT !.mention = m]
\* gen2: the go:generate line of the item is followed directly by a second directive line
WithGen2(it, g) == [it EXCEPT !.gen2 = g]
\* nm: how a marked converter interface is called - "std"; "prefix": the name of the file's other converter interface
\* followed by more letters (ConvergenStorage next to Convergen); "long": forty characters; "alias": the standard name, declared in the alias
\* form type X = interface {...}; "recvsame": the standard
\* name, but the METHODS are called like the other converter interface's and carry a :recv notation
WithNm(it, n) == [it EXCEPT !.nm = n]
Decl(id, form, doc, trail, gen) == Item("decl", id, form, doc, trail, gen, FALSE, FALSE, FALSE, 0, FALSE, FALSE, FALSE, FALSE, 1)
Intf(id, named, marked, lookalike, doc, gen, nmeth, short, oneline, mdoc, trail, after, gap) ==
  Item("intf", id, "intf", doc, trail, gen, named, marked, lookalike, nmeth, short, oneline, mdoc, after, gap)
TMark(id) == Item("tmark", id, "type", TRUE, FALSE, FALSE, FALSE, TRUE, FALSE, 0, FALSE, FALSE, FALSE, FALSE, 1)
VMark(id) == Item("vmark", id, "var", TRUE, FALSE, FALSE, FALSE, TRUE, FALSE, 0, FALSE, FALSE, FALSE, FALSE, 1)
Float(id) == Item("float", id, "float", FALSE, FALSE, FALSE, FALSE, FALSE, FALSE, 0, FALSE, FALSE, FALSE, FALSE, 1)
\* a floating comment whose last line is a go:generate line, below a long line
FloatGen(id) == WithLong([Float(id) EXCEPT !.gen = TRUE])

LayE(items, pkgdoc, build, imports, sibling, embed) == [items |-> items, pkgdoc |-> pkgdoc, build |-> build, imports |-> imports, sibling |-> sibling, embed |-> embed, pkggen |-> FALSE]
\* pkggen: a go:generate line stands directly above the package clause (below the package documentation, if there is one)
WithPkgGen(l, g) == [l EXCEPT !.pkggen = g]
Lay(items, pkgdoc, build, imports, sibling) == LayE(items, pkgdoc, build, imports, sibling, "none")
Rest == i = 1 /\ out = << >> /\ rejected = FALSE /\ pc = "find"

\* ---- C03: every shape of one converter interface x neighbours
ConvShape(id, named, doc, gen, nmeth, short, oneline, mdoc, trail, after, gap) ==
  Intf(id, named, ~named, FALSE, doc, gen, nmeth, short, oneline, mdoc, trail, after, gap)
Medium(id, named) == ConvShape(id, named, TRUE, FALSE, 2, FALSE, FALSE, TRUE, FALSE, FALSE, 1)
Plain(id) == Intf(id, FALSE, FALSE, FALSE, TRUE, FALSE, 2, FALSE, FALSE, TRUE, TRUE, FALSE, 1)
Pres  == {<< >>, <<Decl("pre", "var", TRUE, TRUE, FALSE)>>, <<WithLong(Decl("pre", "var", TRUE, FALSE, TRUE))>>, <<FloatGen("fl")>>}
\* a second converter interface directly below, as close as it can get: no doc, a short name (marked),
\* or - when the first one is not called Convergen - an undocumented interface named Convergen
Tight(id) == ConvShape(id, FALSE, FALSE, FALSE, 1, TRUE, FALSE, FALSE, FALSE, FALSE, 1)
TightNamed(id) == ConvShape(id, TRUE, FALSE, FALSE, 1, FALSE, FALSE, FALSE, FALSE, FALSE, 1)
Posts == {<< >>, <<Decl("post", "func", FALSE, FALSE, FALSE)>>, <<Medium("c2", FALSE)>>, <<Plain("p2")>>, <<Tight("c2")>>, <<TightNamed("c2")>>,
          <<WithNm(Medium("c2", FALSE), "prefix")>>}
IsConv(q) == q # << >> /\ q[1].k = "intf" /\ (q[1].named \/ q[1].marked)
\* a dozen converter interfaces, ROT of those whose names sort last standing first in the file (the tool visits
\* interfaces in name order, whatever their order in the file), loosely or tightly packed
DozenIds == <<"k01", "k02", "k03", "k04", "k05", "k06", "k07", "k08", "k09", "k10", "k11", "k12">>
Dozen(tight, rot) ==
  [j \in 1..12 |-> LET id == DozenIds[((j + 11 - rot) % 12) + 1] IN
                   IF tight THEN ConvShape(id, FALSE, FALSE, FALSE, 1, FALSE, FALSE, FALSE, FALSE, FALSE, 1) ELSE Medium(id, FALSE)]
InitAcceptOne ==
     \E named \in B, doc \in B, gen \in B, short \in B, after \in B, gap \in {0, 1}, pre \in Pres :
     \E post \in {q \in Posts : q = << >> \/ ~(named /\ q[1].named)} :      \* only one interface can be called Convergen
       \/ \E nmeth \in {1, 2}, mdoc \in B, trail \in B, pkggen \in B :
            /\ (pkggen => pre = << >> /\ post = << >> /\ ~trail)
            /\ layout = WithPkgGen(Lay(pre \o <<ConvShape("c1", named, doc, gen, nmeth, short, FALSE, mdoc, trail, after, gap)>> \o post,
                                       FALSE, "gobuild", "none", "none"), pkggen)
       \* the setup file dot-imports a package and a notation names one of its functions bare
       \/ \E nmeth \in {1, 2}, mdoc \in B :
            layout = Lay(pre \o <<ConvShape("c1", named, doc, gen, nmeth, short, FALSE, mdoc, FALSE, after, gap)>> \o post,
                         FALSE, "gobuild", "dot", "none")
       \* the first of two converter interfaces is called like the second plus more letters, or has a very long name
       \/ \E nm \in {"prefix", "long"} :
            /\ ~named /\ IsConv(post) /\ post[1].nm = "std" /\ (nm = "prefix" => ~(post[1].short /\ ~post[1].doc))
            /\ layout = Lay(pre \o <<WithNm(ConvShape("c1", FALSE, doc, gen, 1, short, FALSE, FALSE, FALSE, after, gap), nm)>> \o post,
                            FALSE, "gobuild", "none", "none")
       \/ layout = Lay(pre \o <<ConvShape("c1", named, doc, gen, 1, short, TRUE, FALSE, FALSE, after, gap)>> \o post,
                       FALSE, "gobuild", "none", "none")
InitAccept ==
  /\ \/ InitAcceptOne
     \/ \E tight \in B, rot \in {0, 1, 2, 3, 11} : layout = Lay(Dozen(tight, rot), FALSE, "gobuild", "none", "none")
  /\ Rest

\* ---- C11: declarations and comments around a converter interface x file-level attributes
DeclAttrs == {<<FALSE, FALSE, FALSE, FALSE, FALSE>>, <<TRUE, FALSE, FALSE, FALSE, FALSE>>, <<TRUE, TRUE, FALSE, FALSE, FALSE>>, <<TRUE, FALSE, TRUE, FALSE, FALSE>>, <<FALSE, TRUE, FALSE, FALSE, FALSE>>, <<FALSE, FALSE, TRUE, FALSE, FALSE>>,
              <<TRUE, FALSE, FALSE, TRUE, FALSE>>, <<TRUE, FALSE, TRUE, TRUE, FALSE>>,
              <<TRUE, FALSE, TRUE, FALSE, TRUE>>, <<TRUE, TRUE, TRUE, FALSE, TRUE>>}      \* doc, trailing comment, go:generate line, mention, second directive line
Forms == {"var", "func", "type", "const", "varblock", "method", "blockvar"}
\* an ordinary interface whose doc comment has lines that begin with a colon (they are prose, not notations of a converter)
Look(id) == Intf(id, FALSE, FALSE, TRUE, TRUE, FALSE, 1, FALSE, FALSE, FALSE, FALSE, FALSE, 1)
InitCarry ==
  /\ \E named \in B, form1 \in Forms, a1 \in DeclAttrs, mid \in {"none", "float", "floatgen"}, long1 \in B, second \in B, pkgdoc \in B, after \in B, pkggen \in B,
        build \in {"gobuild", "plusbuild", "both"}, imports \in {"none", "used", "mixed"} :
       \E post \in {<< >>, <<Look("lk")>>} \cup {<<WithGen2(WithMention(Decl("post", f, a[1], a[2], a[3]), a[4]), a[5])>> : f \in {"func", "type", "varblock"}, a \in DeclAttrs} :
         /\ (long1 => a1[1] /\ a1[3] /\ form1 \in {"var", "func", "type"})
         /\ (second => mid = "none" /\ ~long1 /\ build = "gobuild" /\ imports = "none")      \* a long doc line matters above a go:generate line only
         /\ (long1 => ~a1[4] /\ ~a1[5])
         /\ (pkggen => mid = "none" /\ ~long1 /\ ~second /\ imports = "none" /\ form1 \in {"var", "func"})
         /\ layout = WithPkgGen(Lay(<<IF long1 THEN WithLong(Decl("pre", form1, a1[1], a1[2], a1[3])) ELSE WithGen2(WithMention(Decl("pre", form1, a1[1], a1[2], a1[3]), a1[4]), a1[5])>>
                      \o (CASE mid = "float" -> <<Float("fl")>> [] mid = "floatgen" -> <<FloatGen("fl")>> [] OTHER -> << >>)
                      \* method docs (present when the interface is called Convergen) mention a directive when the declaration above does
                      \o <<WithMention(ConvShape("c1", named, ~named, FALSE, 2, FALSE, FALSE, named, after, after, 1), named /\ a1[4])>>
                      \o post
                      \* a second converter interface further down whose name sorts BEFORE the first one's: blocks are
                      \* generated in name order but belong where their interfaces stood
                      \o (IF second THEN <<Medium("c0", FALSE)>> ELSE << >>),
                      pkgdoc, build, imports, "none"), pkggen)
  /\ Rest

\* ---- C17: mixes of interfaces x sibling files
Kinds == {"named", "marked", "plain", "lookalike", "tmark", "vmark"}
Mk(kind, id) == CASE kind = "named"     -> Medium(id, TRUE)
                  [] kind = "marked"    -> Medium(id, FALSE)
                  [] kind = "plain"     -> Plain(id)
                  [] kind = "lookalike" -> Intf(id, FALSE, FALSE, TRUE, TRUE, FALSE, 1, FALSE, FALSE, FALSE, FALSE, FALSE, 1)
                  [] kind = "tmark"     -> TMark(id)
                  [] kind = "vmark"     -> VMark(id)
Emb == Intf("emb", FALSE, FALSE, FALSE, TRUE, FALSE, 1, FALSE, FALSE, FALSE, FALSE, FALSE, 1)
Emb2 == Intf("emb2", FALSE, FALSE, FALSE, TRUE, FALSE, 1, FALSE, FALSE, FALSE, FALSE, FALSE, 1)
EmbItems(embed) == IF embed = "dup" THEN <<Emb, Emb2>> ELSE <<Emb>>
\* at most one interface may be called Convergen in one file
OneNamed(ks) == Cardinality({j \in DOMAIN ks : ks[j] = "named"}) <= 1
InitSelect ==
  /\ \/ \E n \in 1..3, sibling \in {"none", "marked", "named"} :
          \E ks \in [1..n -> Kinds] :
            /\ OneNamed(ks)
            \* two interfaces called Convergen in one package would not compile
            /\ (sibling = "named" => \A j \in DOMAIN ks : ks[j] # "named")
            /\ LET its == [j \in 1..n |-> Mk(ks[j], CASE j = 1 -> "i1" [] j = 2 -> "i2" [] OTHER -> "i3")]
                   hasConv == \E j \in 1..n : ks[j] \in {"named", "marked"} IN
               \E embed \in {"none", "file", "sibling", "dup", "redecl"}, embFirst \in B :
                 /\ (embed # "none" => hasConv)
                 /\ (embed \in {"none", "sibling"} => ~embFirst)
                 \* the embedded interface of this file is an unmarked interface like any other, before or after its user
                 /\ layout = LayE(IF embed \in {"file", "dup", "redecl"} THEN (IF embFirst THEN EmbItems(embed) \o its ELSE its \o EmbItems(embed)) ELSE its,
                                  TRUE, "gobuild", "used", sibling, embed)
     \* two converter interfaces whose names are related: one is called like the other plus more letters, or has forty
     \* characters; either one first; loosely or tightly packed; a third, unmarked interface may follow
     \/ \E nm \in {"prefix", "long"}, other \in {"named", "marked"}, tight \in B, nmFirst \in B, tail \in B :
          LET a == WithNm(IF tight THEN ConvShape("i1", FALSE, FALSE, FALSE, 1, FALSE, FALSE, FALSE, FALSE, FALSE, 1) ELSE Medium("i1", FALSE), nm)
              b == IF tight THEN (IF other = "named" THEN TightNamed("i2") ELSE ConvShape("i2", FALSE, FALSE, FALSE, 1, FALSE, FALSE, FALSE, FALSE, FALSE, 1))
                            ELSE Medium("i2", other = "named")
              two == IF nmFirst THEN <<a, b>> ELSE <<b, a>> IN
          layout = LayE(two \o (IF tail THEN <<Plain("i3")>> ELSE << >>), TRUE, "gobuild", "used", "none", "none")
     \* two converter interfaces with the SAME method names: the second one's methods carry :recv, so they become
     \* methods of the source type while the first one's are plain functions - different declarations, both required
     \/ \E first \in {"named", "marked"}, secondFirst \in B, tail \in B :
          LET a == Mk(first, "i1")
              b == WithNm(Medium("i2", FALSE), "recvsame")
              two == IF secondFirst THEN <<b, a>> ELSE <<a, b>> IN
          layout = LayE(two \o (IF tail THEN <<Plain("i3")>> ELSE << >>), TRUE, "gobuild", "used", "none", "none")
     \* a dozen converter interfaces, file order different from name order
     \/ \E tight \in B, rot \in {0, 2, 11} : layout = LayE(Dozen(tight, rot), TRUE, "gobuild", "used", "none", "none")
     \* a converter interface written in the alias form (type X = interface {...}): an interface declared in the
     \* input file like any other - marked or called Convergen, alone or next to an ordinary converter interface
     \/ \E kind \in {"named", "marked"}, other \in {"none", "named", "marked", "plain"}, aliasFirst \in B :
          /\ ~(kind = "named" /\ other = "named")
          /\ LET a == WithNm(Mk(kind, "i1"), "alias")
                 rest == IF other = "none" THEN << >> ELSE <<Mk(other, "i2")>> IN
             layout = LayE(IF aliasFirst THEN <<a>> \o rest ELSE rest \o <<a>>, TRUE, "gobuild", "used", "none", "none")
  /\ Rest

SpecAccept == InitAccept /\ [][Next]_vars
SpecCarry  == InitCarry /\ [][Next]_vars
SpecSelect == InitSelect /\ [][Next]_vars
NoLayouts == {}
=============================================================================
