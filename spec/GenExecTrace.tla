------------------------------ MODULE GenExecTrace ------------------------------
(***************************************************************************)
(* Trace specification for executions of GENERATED functions (binding B2). *)
(* The harness runs each generated function with instrumented user code    *)
(* (converters, getters, String(), hooks call a recorder), under chosen    *)
(* operand values and armed fault sets, and writes one NDJSON event per    *)
(* line:                                                                   *)
(*   begin   fn, kinds (the plan, by fragment kind), style, pre/post hook  *)
(*           shapes, src / args / dst0 snapshots (leaf path -> symbolic    *)
(*           value), faults armed                                          *)
(*   call    site, fail, seen (hooks: destination snapshot at call time)   *)
(*   end     err (failing site or "nil"), dst, src, args, shared (slice    *)
(*           leaves sharing storage with the source), panicked             *)
(*   observe dst after the harness overwrote every source slice element    *)
(* TLC checks the file against this machine.  The machine tracks CALLS     *)
(* only (no silent steps): destination values are a function of the plan,  *)
(* the source snapshot and hook writes, evaluated at the observation       *)
(* points.  The only nondeterminism TLC resolves is the order of calls.    *)
(* Which conjuncts are enforced is selected by Checks, so that each        *)
(* property judges only what it states:                                    *)
(*   "values" "frame" "src" "panic"   C02                                  *)
(*   "errors"                         C07                                  *)
(*   "hooks"                          C10                                  *)
(*   "slices"                         C16                                  *)
(***************************************************************************)
EXTENDS Naturals, Sequences, FiniteSets, TLC, Json, GenExecFrag

CONSTANTS Checks, TraceFile,
          Deviations    \* named deviations of the pinned implementation that are recorded as OPEN known findings
                        \* (/verif/known_findings.json); the harness passes their names, reports each run that
                        \* needs one as KNOWN-FINDING, and passes {} when the file does not list them
TraceLog == ndJsonDeserialize(TraceFile)

VARIABLES l,       \* next line of the trace
          cur,     \* the begin event of the run in progress
          phase,   \* idle | init | body | post | ended
          done,    \* call sites executed so far in this run
          failed   \* site whose call failed, or "nil"
tvars == <<l, cur, phase, done, failed>>

On(c) == c \in Checks
Override(f, g) == [k \in DOMAIN f |-> IF k \in DOMAIN g THEN g[k] ELSE f[k]]

----------------------------------------------------------------------------
(* the plan of the current run: fragments by kind (GenExecFrag) *)
Kinds == {cur.kinds[i] : i \in DOMAIN cur.kinds}
\* call sites of the body (hooks excluded), and those that can fail
Sites    == UNION {Frag[k].sites : k \in Kinds}
ErrSites == UNION {Frag[k].errsites : k \in Kinds}
\* destination leaves the plan assigns, with their values as a function of the source snapshot
Assigned == UNION {DOMAIN Frag[k].assign : k \in Kinds}
\* hooks overwrite every scalar destination leaf with their tag
HookWrites(tag) == [p \in {cur.scalars[i] : i \in DOMAIN cur.scalars} |-> tag]

\* value of a term (GenExecFrag term records) on the snapshots of the begin event
RECURSIVE Eval(_)
Eval(t) ==
  CASE t.op = "src"  -> cur.src[t.p]
    [] t.op = "arg"  -> cur.args[t.p]
    [] t.op = "lit"  -> t.v
    [] t.op = "call" -> t.fn \o "(" \o Eval(t.a) \o ")"
    [] t.op = "via"  -> cur.src[t.p]

\* leaves whose source path crosses a nil pointer in this run: the value is undefined - any value is
\* permitted there, but never a panic (C02)
Undefined == {p \in Assigned : (LET k == CHOOSE k \in Kinds : p \in DOMAIN Frag[k].assign
                                    t == Frag[k].assign[p] IN t.op = "via" /\ cur.src[t.fn] = "nil")}
AfterPre == IF cur.pre.on /\ cur.pre.dstPtr THEN Override(cur.dst0, HookWrites("pre")) ELSE cur.dst0
\* nil source slices leave the destination as it was; everything else takes the plan's value
PlanVal(p) == LET k == CHOOSE k \in Kinds : p \in DOMAIN Frag[k].assign
                  t == Frag[k].assign[p] IN
              IF t.op \in {"slice", "optslice"} THEN (IF cur.src[t.p] = "nil" THEN AfterPre[p] ELSE cur.src[t.p])
              ELSE IF p \in Undefined THEN AfterPre[p]
              ELSE Eval(t)
AllAssigned == [p \in DOMAIN cur.dst0 |-> IF p \in Assigned THEN PlanVal(p) ELSE AfterPre[p]]
Final == IF cur.post.on /\ cur.post.dstPtr THEN Override(AllAssigned, HookWrites("post")) ELSE AllAssigned
SliceLeaves == {p \in Assigned : (LET k == CHOOSE k \in Kinds : p \in DOMAIN Frag[k].assign IN Frag[k].assign[p].op \in {"slice", "optslice"})}
\* slice leaves the function may leave alone (C16 speaks of slices that ARE copied)
OptLeaves == {p \in Assigned : (LET k == CHOOSE k \in Kinds : p \in DOMAIN Frag[k].assign IN Frag[k].assign[p].op = "optslice")}
SliceOK(p, seen) == seen[p] = Final[p] \/ (p \in OptLeaves /\ seen[p] = AfterPre[p])

----------------------------------------------------------------------------
Init == TLCSet(1, 0) /\ l = 1 /\ cur = [ev |-> "none"] /\ phase = "idle" /\ done = {} /\ failed = "nil"
IsEvent(e) == l <= Len(TraceLog) /\ TraceLog[l].ev = e /\ l' = l + 1
E == TraceLog[l]

TBegin == /\ IsEvent("begin") /\ phase \in {"idle", "ended"}
          /\ cur' = E /\ done' = {} /\ failed' = "nil"
          /\ phase' = IF E.pre.on THEN "init" ELSE "body"

\* C10: the preprocess hook runs first, once, on the function's own operands: it sees the destination
\* as it was handed in / just allocated, before any field is assigned
TPre == /\ IsEvent("call") /\ E.site = "Pre" /\ phase = "init"
        /\ (On("hooks") => E.seen = cur.dst0 /\ E.srcSeen = cur.src /\ E.argsSeen = cur.pre.hargs)
        /\ (E.fail => cur.pre.err)
        /\ phase' = "body" /\ failed' = (IF E.fail THEN "Pre" ELSE "nil") /\ UNCHANGED <<cur, done>>

\* a converter / getter / String() call of the body: each site at most once, any order,
\* and (C07) never after a failure
TCall == /\ IsEvent("call") /\ E.site \notin {"Pre", "Post"} /\ phase = "body"
         /\ (On("errors") => failed = "nil")
         /\ E.site \in Sites \ done
         /\ (E.fail => E.site \in ErrSites)
         /\ done' = done \cup {E.site}
         /\ failed' = (IF E.fail /\ failed = "nil" THEN E.site ELSE failed)
         /\ UNCHANGED <<cur, phase>>

\* C10: the postprocess hook runs last, once, after every field has been assigned
TPost == /\ IsEvent("call") /\ E.site = "Post" /\ phase = "body" /\ cur.post.on
         /\ (On("errors") => failed = "nil")
         /\ (On("hooks") => done = Sites /\ (\A p \in DOMAIN AllAssigned \ Undefined : E.seen[p] = AllAssigned[p] \/ (p \in OptLeaves /\ E.seen[p] = AfterPre[p])) /\ E.srcSeen = cur.src /\ E.argsSeen = cur.post.hargs)
         /\ (E.fail => cur.post.err)
         /\ phase' = "post" /\ failed' = (IF E.fail /\ failed = "nil" THEN "Post" ELSE failed) /\ UNCHANGED <<cur, done>>

Finished == failed # "nil" \/ (IF cur.post.on THEN phase = "post" ELSE (phase = "body" /\ done = Sites))
TEnd == /\ IsEvent("end") /\ phase \in {"body", "post"}
        /\ (On("hooks") => (failed = "nil" /\ ~E.panicked => Finished))  \* C10: no hook or call skipped
        /\ (On("errors") => E.err = failed)                                \* C07: that very error, or nil
        /\ (On("panic") => \/ ~E.panicked                                 \* C02: no panic
                            \* named deviation: a :map path through a nil pointer member is dereferenced
                            \/ ("nil-pointer-on-mapped-path" \in Deviations /\ Undefined # {}))
        /\ (On("src") => E.src = cur.src /\ E.args = cur.args)              \* C02: operands unmodified
        /\ (failed = "nil" /\ ~E.panicked =>
              /\ (On("values") => \A p \in (Assigned \ SliceLeaves) \ Undefined : E.dst[p] = Final[p])      \* C02: exactly the matched values
              /\ (On("frame")  => \A p \in DOMAIN cur.dst0 \ Assigned : E.dst[p] = Final[p])    \* C02: everything else untouched
              /\ (On("slices") => \A p \in SliceLeaves :
                                     /\ SliceOK(p, E.dst)                                       \* C16: same length, same elements; nil stays nil
                                     /\ p \notin {E.shared[i] : i \in DOMAIN E.shared}))       \* C16: fresh storage
        /\ phase' = "ended" /\ UNCHANGED <<cur, done, failed>>

\* C16: after the source elements were overwritten the destination still shows the copied values
TObserve == /\ IsEvent("observe") /\ phase = "ended"
            /\ (On("slices") /\ failed = "nil" => \A p \in SliceLeaves : SliceOK(p, E.dst))
            /\ UNCHANGED <<cur, phase, done, failed>>

Next == TBegin \/ TPre \/ TCall \/ TPost \/ TEnd \/ TObserve
Spec == Init /\ [][Next]_tvars
HighWater == TLCSet(1, IF l > TLCGet(1) THEN l ELSE TLCGet(1))
Accepted == PrintT(<<"HW", TLCGet(1), Len(TraceLog)>>) /\ TLCGet(1) = Len(TraceLog) + 1
=============================================================================
