------------------------------ MODULE Signature ------------------------------
(***************************************************************************)
(* C08: the header of the function generated for one interface method, as  *)
(* a function of :style, :recv, :reverse, the operands' pointer-ness, the  *)
(* error result, additional arguments, declared names and whether operand  *)
(* types are imported.  Mirrors parser/comment.go (notation validation),   *)
(* builder/method.go CreateFunction (legality, default names) and          *)
(* generator/function.go FuncToString (assembly), one action per step.     *)
(*                                                                         *)
(*   style   recv   header                                                 *)
(*   return  -      func M(<src> S[, args...]) (<dst> D[, err error])      *)
(*   return  r      func (r S) M([args...]) (<dst> D[, err error])         *)
(*   arg     -      func M(<dst> *D0, <src> S[, args...]) [(err error)]    *)
(*   arg     r      func (r S) M(<dst> *D0[, args...]) [(err error)]       *)
(*                                                                         *)
(* S, D keep pointer-ness and package qualifier of the method's operands;  *)
(* D0 is D without its own "*".  Names: declared ones, else src/dst/argN;  *)
(* :recv renames the source; :reverse (arg style, no additional arguments) *)
(* swaps the two DEFAULT names and the copy direction, nothing else.       *)
(***************************************************************************)
EXTENDS Naturals, Sequences, FiniteSets, TLC, Json

CONSTANTS MaxArgs

Styles == {"return", "arg"}
Imps   == {"none", "src", "dst", "both"}
\* ---- the import declarations of the setup file (util/import.go NewImportNames,
\* parser/parser.go importNames): a package is referred to by the explicit name of
\* its import declaration or else by the name the package itself declares - which
\* is usually, but not necessarily, the last element of its path.
Imports == [ext |-> [path |-> "ext",    alias |-> "",   declared |-> "ext"],
            v2  |-> [path |-> "api/v2", alias |-> "",   declared |-> "v2"],     \* k8s layout: the version element is the name
            mdl |-> [path |-> "mdl/v3", alias |-> "",   declared |-> "mdl"],    \* module layout: the version element is not the name
            xa  |-> [path |-> "extal",  alias |-> "xa", declared |-> "extal"],  \* explicit name
            sp  |-> [path |-> "other/p", alias |-> "sp", declared |-> "p"]]     \* a package that declares the setup package's own name
Pkgs == DOMAIN Imports
Qual(k) == IF Imports[k].alias # "" THEN Imports[k].alias ELSE Imports[k].declared
Cfg == [style: Styles, recv: BOOLEAN, reverse: BOOLEAN, srcPtr: BOOLEAN, dstPtr: BOOLEAN,
        retErr: BOOLEAN, nargs: 0..MaxArgs, named: BOOLEAN, namedRes: BOOLEAN, imp: Imps, pkg: Pkgs,
        recvBlank: BOOLEAN,      \* the receiver name of the notation is the blank identifier: it cannot be referred to
        clash: {"none", "srcIsDst", "srcIsErr", "srcBlank", "argIsDst", "resIsSrc"},
                                 \* how the user's own names meet the names the tool gives by default: the source parameter is
                                 \* called dst / err / _, the first additional argument dst, the result src
        dstErr: BOOLEAN,         \* the destination type has a method Error() string: it is the destination all the same, not an error result
        twin: BOOLEAN]           \* another converter interface of the file has a method of the SAME name with the SAME receiver
                                 \* name on ANOTHER source type: two methods of two types - the header of this one is what it is

VARIABLES cfg, pc, shape
vars == <<cfg, pc, shape>>

\* ---- operand types as they are written in the generated package
SrcBase(c) == IF c.imp \in {"src", "both"} THEN Qual(c.pkg) \o ".XS" ELSE "SigS"
DstBase(c) == IF c.imp \in {"dst", "both"} THEN Qual(c.pkg) \o ".XS" ELSE "SigD"
Star(b, t) == IF b THEN "*" \o t ELSE t
SrcType(c) == Star(c.srcPtr, SrcBase(c))
DstType(c) == Star(c.dstPtr, DstBase(c))
\* a composite type with an imported element, an imported defined type, a pointer to a local one, a pointer to a pointer
ArgTypes == <<"[]ext.XInt", "ext.XInt", "*MyInt", "**ext.XS">>
ArgDeclNames == <<"count", "code", "ref", "link">>
ArgDefNames  == <<"arg0", "arg1", "arg2", "arg3">>

\* ---- names
\* the receiver name of the notation: an ordinary Go identifier, underscore included
SrcName(c) == IF c.recv THEN "r_c"
              ELSE IF c.named THEN (CASE c.clash = "srcIsDst" -> "dst" [] c.clash = "srcIsErr" -> "err" [] c.clash = "srcBlank" -> "_" [] OTHER -> "from")
              ELSE IF c.reverse THEN "dst" ELSE "src"
\* parameters and results are named independently of each other (Go names all of a list or none)
DstName(c) == IF c.namedRes THEN (IF c.clash = "resIsSrc" THEN "src" ELSE "to")
              ELSE IF c.reverse THEN "src" ELSE "dst"
ArgName(c, i) == IF c.named THEN (IF c.clash = "argIsDst" /\ i = 1 THEN "dst" ELSE ArgDeclNames[i]) ELSE ArgDefNames[i]
\* the names of one header: they must be distinct, and the operands the body works on must have one
HeaderNames(c) == <<SrcName(c), DstName(c)>> \o [i \in 1..c.nargs |-> ArgName(c, i)] \o (IF c.retErr THEN <<"err">> ELSE << >>)
NameClash(c) == LET h == HeaderNames(c) IN
                  \/ Cardinality({h[i] : i \in DOMAIN h}) # Len(h)
                  \/ SrcName(c) = "_" \/ DstName(c) = "_"

P(n, t) == [name |-> n, type |-> t]
Args(c) == [i \in 1..c.nargs |-> P(ArgName(c, i), ArgTypes[i])]
NoRecv == P("", "")

\* the import form matters only when an operand is imported; forms other than the
\* plain one are explored with the parameter names left to the tool
Init == cfg \in {c \in Cfg : (c.imp = "none" => c.pkg = "ext") /\ (c.pkg # "ext" => ~c.named /\ ~c.namedRes)
                       /\ (c.recvBlank => c.recv /\ ~c.reverse /\ c.nargs = 0 /\ ~c.named /\ ~c.namedRes /\ c.imp = "none")
                       /\ (c.dstErr => c.imp \in {"none", "src"} /\ ~c.named /\ ~c.namedRes /\ c.nargs <= 1 /\ c.clash = "none" /\ ~c.twin /\ ~c.recvBlank)
                       /\ (c.clash # "none" => c.imp = "none" /\ ~c.recvBlank /\ ~c.twin /\ c.nargs <= 1)
                       /\ (c.clash \in {"srcIsDst", "srcIsErr", "srcBlank"} => c.named /\ ~c.recv)
                       /\ (c.clash = "srcIsErr" => ~(c.namedRes /\ c.retErr))   \* (err *S) (to *D, err error) is no valid method declaration
                       /\ (c.clash = "argIsDst" => c.named /\ c.nargs = 1)
                       /\ (c.clash = "resIsSrc" => c.namedRes)
                       /\ (c.twin => c.recv /\ ~c.recvBlank /\ ~c.named /\ ~c.namedRes /\ c.imp = "none" /\ c.nargs <= 1)} /\ pc = "validate" /\ shape = [reject |-> FALSE, recv |-> NoRecv, params |-> << >>, results |-> << >>]

Reject == shape' = [reject |-> TRUE, recv |-> NoRecv, params |-> << >>, results |-> << >>] /\ pc' = "done"

\* step 1: notation validation and legality (parser/comment.go, builder/method.go)
Validate ==
  /\ pc = "validate"
  /\ IF cfg.reverse /\ cfg.style = "return" THEN Reject            \* :reverse needs :style arg
     ELSE IF cfg.reverse /\ cfg.nargs > 0 THEN Reject              \* :reverse cannot be used with additional arguments
     ELSE IF cfg.recv /\ cfg.imp \in {"src", "both"} THEN Reject   \* an imported type cannot be a receiver
     ELSE IF cfg.recvBlank THEN Reject                             \* a receiver called _ could not be copied from
     ELSE IF NameClash(cfg) THEN Reject                            \* two things of one name, or an operand without a name: no valid header exists
     ELSE pc' = "assemble" /\ UNCHANGED shape
  /\ UNCHANGED cfg

\* step 2: header assembly (generator/function.go FuncToString)
Assemble ==
  /\ pc = "assemble"
  /\ LET c == cfg
         src == P(SrcName(c), SrcType(c))
         dstParam == P(DstName(c), "*" \o DstBase(c))         \* arg style: always a pointer
         dstRes == P(DstName(c), DstType(c))
         err == P("err", "error")
         params == (IF c.style = "arg" THEN <<dstParam>> ELSE << >>)
                   \o (IF c.recv THEN << >> ELSE <<src>>) \o Args(c)
         results == (IF c.style = "return" THEN <<dstRes>> ELSE << >>)
                    \o (IF c.retErr THEN <<err>> ELSE << >>) IN
     shape' = [reject |-> FALSE, recv |-> IF c.recv THEN src ELSE NoRecv, params |-> params, results |-> results]
  /\ pc' = "done"
  /\ UNCHANGED cfg

Next == Validate \/ Assemble
Spec == Init /\ [][Next]_vars
Done == pc = "done"

----------------------------------------------------------------------------
(* C08 on the model: the documented table, as invariants of every accepted shape *)
Acc == Done /\ ~shape.reject
Names(seq) == [i \in DOMAIN seq |-> seq[i].name]
\* source (or receiver) first, among the non-destination parameters
SrcOrRecvFirst == Acc => IF cfg.recv THEN shape.recv.type = SrcType(cfg)
                         ELSE LET k == IF cfg.style = "arg" THEN 2 ELSE 1 IN shape.params[k].type = SrcType(cfg)
\* destination: leading pointer parameter in arg style, first result in return style
DstPlace == Acc => IF cfg.style = "arg"
                     THEN shape.params[1].type = "*" \o DstBase(cfg) /\ (\A i \in DOMAIN shape.results : shape.results[i].type = "error")
                     ELSE shape.results[1].type = DstType(cfg)
\* additional arguments after the source, in order
ArgsInOrder == Acc => LET off == Len(shape.params) - cfg.nargs IN
                        \A i \in 1..cfg.nargs : shape.params[off + i].type = ArgTypes[i]
\* err error last, iff the method has an error result
ErrLast == Acc => LET n == Len(shape.results) IN
                    IF cfg.retErr THEN n >= 1 /\ shape.results[n] = P("err", "error")
                    ELSE \A i \in DOMAIN shape.results : shape.results[i].type # "error"
\* declared names survive
NamesPreserved == Acc /\ cfg.named =>
                    /\ (~cfg.recv => \E i \in DOMAIN shape.params : shape.params[i] = P(SrcName(cfg), SrcType(cfg)))
                    /\ \A i \in 1..cfg.nargs : \E j \in DOMAIN shape.params : shape.params[j].name = ArgName(cfg, i)
ResultNamePreserved == Acc /\ cfg.namedRes =>
                    \E i \in DOMAIN shape.params \cup DOMAIN shape.results :
                       \/ (i \in DOMAIN shape.params /\ shape.params[i].name = DstName(cfg))
                       \/ (i \in DOMAIN shape.results /\ shape.results[i].name = DstName(cfg))
\* the illegal combinations, and only they, are rejected
IllegalRejected == Done => (shape.reject <=> \/ (cfg.reverse /\ (cfg.style = "return" \/ cfg.nargs > 0))
                                             \/ (cfg.recv /\ cfg.imp \in {"src", "both"})
                                             \/ cfg.recvBlank
                                             \/ NameClash(cfg))
\* all names in a header are distinct
DistinctNames == Acc => LET all == (IF cfg.recv THEN <<shape.recv.name>> ELSE << >>) \o Names(shape.params) \o Names(shape.results) IN
                          Cardinality({all[i] : i \in DOMAIN all}) = Len(all)

\* an imported operand type is written with the qualifier of its import declaration
QualifierUsed == Acc /\ cfg.imp # "none" =>
                   \E i \in DOMAIN shape.params \cup DOMAIN shape.results :
                      LET all == shape.params \o shape.results \o <<shape.recv>> IN
                      \E j \in DOMAIN all : all[j].type \in {Qual(cfg.pkg) \o ".XS", "*" \o Qual(cfg.pkg) \o ".XS"}

Emit == Done => PrintT(<<"CASE", ToJson([cfg |-> cfg, shape |-> shape, import |-> Imports[cfg.pkg]])>>)
=============================================================================
