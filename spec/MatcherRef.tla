------------------------------ MODULE MatcherRef ------------------------------
(***************************************************************************)
(* Reference semantics of convergen's name and pattern matching (C19):     *)
(* equality, Unicode simple case folding, and a fragment of RE2 search     *)
(* written as a recursive matcher over a regular-expression AST.           *)
(* Characters are symbolic; CharTable (generated from Go's unicode package *)
(* by the harness) supplies Chars, the fold-orbit representative Fold[c],  *)
(* the code point Code[c] and the ASCII classes IsWordC / IsDigitC /       *)
(* IsSpaceC.                                                               *)
(* The harness cross-checks Ref against regexp/strings.EqualFold on every  *)
(* emitted query (oracle self-check); a disagreement is a machinery        *)
(* failure, not a violation.                                               *)
(***************************************************************************)
EXTENDS Naturals, Sequences, FiniteSets, TLC, Json, CharTable

----------------------------------------------------------------------------
(* Regular-expression abstract syntax (a fragment of RE2). *)
Lit(c)      == [op |-> "lit", c |-> c]
AnyCh       == [op |-> "any"]
Cls(S, neg) == [op |-> "cls", S |-> S, neg |-> neg]
Perl(k)     == [op |-> "perl", k |-> k]         \* "w" "W" "d" "D" "s" "S"
Rng(lo, hi) == [op |-> "rng", lo |-> lo, hi |-> hi]   \* the class [lo-hi]: every character whose code lies between the end points' -
                                                      \* it may span letters although neither end point is one ([1-_] holds A..Z)
Esc(c)      == [op |-> "esc", c |-> c]          \* the character c written as a numeric escape (\113, \x{17F}): no letter in the text
Cat(l, r)   == [op |-> "cat", l |-> l, r |-> r]
Alt(l, r)   == [op |-> "alt", l |-> l, r |-> r]
Star(r)     == [op |-> "star", r |-> r]
Plus(r)     == [op |-> "plus", r |-> r]
Opt(r)      == [op |-> "opt", r |-> r]
Rep12(r)    == [op |-> "rep12", r |-> r]        \* r{1,2}: a counted repetition - its text contains a comma
Bol         == [op |-> "bol"]
Eol         == [op |-> "eol"]
Wb          == [op |-> "wb"]

RePat(r)    == [kind |-> "re", re |-> r, pl |-> << >>]
PlainPat(p) == [kind |-> "plain", re |-> Bol, pl |-> p]

----------------------------------------------------------------------------
(* Reference semantics. ci = case-insensitive. *)
CharEq(a, b, ci) == IF ci THEN Fold[a] = Fold[b] ELSE a = b

\* Under case folding RE2 closes a class under fold orbits BEFORE negating it.
InClass(P(_), c, ci) == IF ci THEN \E d \in Chars : Fold[d] = Fold[c] /\ P(d) ELSE P(c)
PerlHas(k, c, ci) ==
  CASE k = "w" -> InClass(IsWordC, c, ci)
    [] k = "W" -> ~InClass(IsWordC, c, ci)
    [] k = "d" -> InClass(IsDigitC, c, ci)
    [] k = "D" -> ~InClass(IsDigitC, c, ci)
    [] k = "s" -> InClass(IsSpaceC, c, ci)
    [] k = "S" -> ~InClass(IsSpaceC, c, ci)

\* Ends(r, s, i, ci): the set of positions j such that r matches s[i..j-1].
RECURSIVE Ends(_, _, _, _)
Ends(r, s, i, ci) ==
  CASE r.op = "lit"  -> IF i <= Len(s) /\ CharEq(s[i], r.c, ci) THEN {i+1} ELSE {}
    [] r.op = "any"  -> IF i <= Len(s) THEN {i+1} ELSE {}
    [] r.op = "cls"  -> IF i <= Len(s) /\ ((\E c \in r.S : CharEq(s[i], c, ci)) # r.neg) THEN {i+1} ELSE {}
    [] r.op = "perl" -> IF i <= Len(s) /\ PerlHas(r.k, s[i], ci) THEN {i+1} ELSE {}
    [] r.op = "rng"  -> IF i <= Len(s) /\ (\E d \in Chars : CharEq(s[i], d, ci) /\ Code[r.lo] <= Code[d] /\ Code[d] <= Code[r.hi]) THEN {i+1} ELSE {}
    [] r.op = "esc"  -> IF i <= Len(s) /\ CharEq(s[i], r.c, ci) THEN {i+1} ELSE {}
    [] r.op = "cat"  -> UNION {Ends(r.r, s, j, ci) : j \in Ends(r.l, s, i, ci)}
    [] r.op = "alt"  -> Ends(r.l, s, i, ci) \cup Ends(r.r, s, i, ci)
    [] r.op = "opt"  -> {i} \cup Ends(r.r, s, i, ci)
    [] r.op = "rep12" -> LET one == Ends(r.r, s, i, ci) IN one \cup UNION {Ends(r.r, s, j, ci) : j \in one}
    [] r.op = "bol"  -> IF i = 1 THEN {i} ELSE {}
    [] r.op = "eol"  -> IF i = Len(s)+1 THEN {i} ELSE {}
    [] r.op = "wb"   -> LET before == i > 1 /\ IsWordC(s[i-1])
                            after  == i <= Len(s) /\ IsWordC(s[i])
                        IN IF before # after THEN {i} ELSE {}
    [] r.op = "plus" -> LET RECURSIVE It(_, _)
                            It(F, n) == IF n = 0 THEN F ELSE It(F \cup UNION {Ends(r.r, s, j, ci) : j \in F}, n-1)
                        IN It(Ends(r.r, s, i, ci), Len(s))
    [] r.op = "star" -> LET RECURSIVE It(_, _)
                            It(F, n) == IF n = 0 THEN F ELSE It(F \cup UNION {Ends(r.r, s, j, ci) : j \in F}, n-1)
                        IN It({i}, Len(s)+1)

Search(r, s, ci)  == \E i \in 1..Len(s)+1 : Ends(r, s, i, ci) # {}
PlainEq(p, s, ci) == Len(p) = Len(s) /\ \A i \in 1..Len(p) : CharEq(p[i], s[i], ci)

\* c is the case rule: TRUE = exact case.
Ref(p, s, c) == IF p.kind = "re" THEN Search(p.re, s, ~c) ELSE PlainEq(p.pl, s, ~c)

\* Always-exact comparison used for :map / :conv / :literal destination paths.
RefExact(p, s) == p = s
\* Field-name comparison under the case rule (Options.CompareFieldName).
RefName(a, b, c) == PlainEq(a, b, ~c)
\* Options.ShouldSkip over a list of patterns.
RefShouldSkip(ps, s, c) == \E k \in DOMAIN ps : Ref(ps[k], s, c)

=============================================================================
