------------------------------ MODULE Options ------------------------------
(***************************************************************************)
(* C09: scoping of the notations :style :match :case :getter :stringer     *)
(* :typecast.  Mirrors parser/interface.go findConvergenEntries (the       *)
(* parser's default options are copied, the interface's notations applied  *)
(* to the copy, the copy stored on the interface entry) and                *)
(* parser/method.go parseMethods/parseMethod (each method starts from a    *)
(* copy of its interface's options and applies its own notations), one     *)
(* action per step, in the order the file is processed.                    *)
(*                                                                         *)
(* Two interfaces A (methods A1, A2) and B (method B1).  A configuration   *)
(* places {unset, on, off} for one FOCUS setting at each of the five       *)
(* positions (A, A1, A2, B, B1), optionally preceded by the opposite       *)
(* notation in the same comment (last one wins), on top of a BACKGROUND    *)
(* placement of the other five settings.  Every value is "on"/"off":       *)
(* style on = arg, match on = name.                                        *)
(***************************************************************************)
EXTENDS Naturals, Sequences, FiniteSets, TLC, Json

Settings == {"style", "match", "case", "getter", "stringer", "typecast"}
Pos      == {"A", "A1", "A2", "B", "B1"}
Methods  == {"A1", "A2", "B1", "B2"}     \* B2 is promoted into B from an interface that a sibling file declares:
                                          \* it has no notations of its own (no position), and inherits B's
IntfOf(m) == IF m \in {"B1", "B2"} THEN "B" ELSE "A"
Tri      == {"unset", "on", "off"}
Defaults == [style |-> "off", match |-> "on", case |-> "on", getter |-> "off", stringer |-> "off", typecast |-> "off"]
Opp(v)   == IF v = "on" THEN "off" ELSE "on"

\* background placements of the non-focus settings
Backgrounds == {"none", "intfOn", "mixed"}
BgNotes(bg, p, s) ==
  CASE bg = "none"   -> "unset"
    [] bg = "intfOn" -> IF p \in {"A", "B"} THEN Opp(Defaults[s]) ELSE "unset"
    [] bg = "mixed"  -> IF p = "A2" THEN Opp(Defaults[s])
                        ELSE IF p = "B" THEN Opp(Defaults[s])
                        ELSE IF p = "B1" THEN Defaults[s]
                        ELSE "unset"

Cfg == [focus: Settings, place: [Pos -> Tri], bg: Backgrounds, dup: BOOLEAN]

\* the notation sequence at a position: background settings first (in a fixed order), then the focus setting
SettingSeq == <<"style", "match", "case", "getter", "stringer", "typecast">>
NotesAt(c, p) ==
  IF p \notin Pos THEN << >> ELSE
  LET bgs == SelectSeq(SettingSeq, LAMBDA s : s # c.focus /\ BgNotes(c.bg, p, s) # "unset")
      bgn == [i \in 1..Len(bgs) |-> [s |-> bgs[i], v |-> BgNotes(c.bg, p, bgs[i])]]
      fv  == c.place[p]
      fn  == IF fv = "unset" THEN << >>
             ELSE IF c.dup THEN <<[s |-> c.focus, v |-> Opp(fv)], [s |-> c.focus, v |-> fv]>>
             ELSE <<[s |-> c.focus, v |-> fv]>> IN
  bgn \o fn

VARIABLES cfg,       \* the configuration
          parserOpts,\* the parser's own options value (defaults); must never change
          intfOpts,  \* options stored on each interface entry
          eff,       \* effective options of each parsed method
          todo       \* remaining steps, in processing order

vars == <<cfg, parserOpts, intfOpts, eff, todo>>
None == [style |-> "none", match |-> "none", case |-> "none", getter |-> "none", stringer |-> "none", typecast |-> "none"]

RECURSIVE ApplySeq(_, _)
ApplySeq(o, ns) == IF ns = << >> THEN o ELSE ApplySeq([o EXCEPT ![Head(ns).s] = Head(ns).v], Tail(ns))

Init == /\ cfg \in Cfg
        /\ parserOpts = Defaults
        /\ intfOpts = [i \in {"A", "B"} |-> None]
        /\ eff = [m \in Methods |-> None]
        /\ todo = <<"A", "B", "A1", "A2", "B1", "B2">>     \* findConvergenEntries first, then the methods of each entry

\* findConvergenEntries: opts := p.opts; parse notations into opts; store opts on the entry
ParseIntf(i) == /\ todo # << >> /\ Head(todo) = i /\ i \in {"A", "B"}
                /\ intfOpts' = [intfOpts EXCEPT ![i] = ApplySeq(parserOpts, NotesAt(cfg, i))]
                /\ todo' = Tail(todo)
                /\ UNCHANGED <<cfg, parserOpts, eff>>

\* parseMethod: starts from a COPY of the interface's options
ParseMethod(m) == /\ todo # << >> /\ Head(todo) = m /\ m \in Methods
                  /\ eff' = [eff EXCEPT ![m] = ApplySeq(intfOpts[IntfOf(m)], NotesAt(cfg, m))]
                  /\ todo' = Tail(todo)
                  /\ UNCHANGED <<cfg, parserOpts, intfOpts>>

\* the defect the property excludes (vacuity check): the method writes through to its interface's options
ParseMethodAliased(m) == /\ todo # << >> /\ Head(todo) = m /\ m \in Methods
                         /\ eff' = [eff EXCEPT ![m] = ApplySeq(intfOpts[IntfOf(m)], NotesAt(cfg, m))]
                         /\ intfOpts' = [intfOpts EXCEPT ![IntfOf(m)] = ApplySeq(intfOpts[IntfOf(m)], NotesAt(cfg, m))]
                         /\ todo' = Tail(todo)
                         /\ UNCHANGED <<cfg, parserOpts>>

Next == (\E i \in {"A", "B"} : ParseIntf(i)) \/ (\E m \in Methods : ParseMethod(m))
NextAliased == (\E i \in {"A", "B"} : ParseIntf(i)) \/ (\E m \in Methods : ParseMethodAliased(m))
Spec == Init /\ [][Next]_vars
SpecAliased == Init /\ [][NextAliased]_vars
Done == todo = << >>

----------------------------------------------------------------------------
(* C09 on the model *)
\* last-wins value of setting s among the notations at position p, or "unset"
LastAt(c, p, s) == LET ns == SelectSeq(NotesAt(c, p), LAMBDA n : n.s = s) IN
                     IF ns = << >> THEN "unset" ELSE ns[Len(ns)].v
\* interface default, method override
Scope == Done => \A m \in Methods, s \in Settings :
           eff[m][s] = IF LastAt(cfg, m, s) # "unset" THEN LastAt(cfg, m, s)
                       ELSE IF LastAt(cfg, IntfOf(m), s) # "unset" THEN LastAt(cfg, IntfOf(m), s)
                       ELSE Defaults[s]
\* the parser's defaults are never modified
DefaultsStable == parserOpts = Defaults

Emit == Done => PrintT(<<"CASE", ToJson([cfg |-> cfg,
                                         notes |-> [p \in Pos |-> NotesAt(cfg, p)],
                                         eff |-> eff])>>)
=============================================================================
