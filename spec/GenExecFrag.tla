------------------------------ MODULE GenExecFrag ------------------------------
(***************************************************************************)
(* The statement alphabet of generated functions (bindings B2): for each   *)
(* fragment KIND the destination leaves it assigns, the term denoting the  *)
(* value (over the source / argument snapshots), the user-code call sites  *)
(* it executes and which of them can fail.  The harness holds the same     *)
(* table as Go source fragments (struct fields + notations); a static      *)
(* projection check (case replay) guards against drift before any trace is *)
(* recorded.                                                               *)
(***************************************************************************)
EXTENDS TLC

Src(p)      == [op |-> "src", p |-> p, fn |-> "", v |-> ""]
Arg(p)      == [op |-> "arg", p |-> p, fn |-> "", v |-> ""]
Lit(v)      == [op |-> "lit", p |-> "", fn |-> "", v |-> v]
Slice(p)    == [op |-> "slice", p |-> p, fn |-> "", v |-> ""]
\* a slice whose element type the generated code cannot name: it may be left alone (reported no match) or
\* copied - and if it is copied, then like every slice, into fresh storage
OptSlice(p) == [op |-> "optslice", p |-> p, fn |-> "", v |-> ""]
Call(fn, a) == [op |-> "call", p |-> "", fn |-> fn, v |-> "", a |-> a]
\* a source path through a pointer member: undefined when that pointer is nil
Via(ptr, p) == [op |-> "via", p |-> p, fn |-> ptr, v |-> ""]
None == [x \in {} |-> Src("")]

F(assign, sites, errsites) == [assign |-> assign, sites |-> sites, errsites |-> errsites]

Frag ==
     "field"   :> F("Ffield" :> Src("Ffield"), {}, {})
  @@ "cast"    :> F("Fcast" :> Src("Fcast"), {}, {})                       \* int -> int64 under :typecast: same number
  @@ "str"     :> F("Fstr" :> Call("S", Src("Fstr")), {"S"}, {})             \* String() under :stringer
  @@ "getter"  :> F("Fgetter" :> Call("Fgetter", Src("GtBack")), {"Fgetter"}, {})
  @@ "arg"     :> F("Farg" :> Arg("ARG0"), {}, {})                           \* :map $2 Farg
  @@ "argnest" :> F(("Fan.X" :> Arg("ARG0")) @@ ("Fan.Y" :> Src("Fan.Y")), {}, {})   \* :map $2 Fan.X below a struct that is assignable as a whole
  @@ "lit"     :> F("Flit" :> Lit("42"), {}, {})                             \* :literal Flit 42
  @@ "convV"   :> F("FconvV" :> Call("CvV", Src("FconvV")), {"CvV"}, {})
  @@ "convP"   :> F("FconvP" :> Call("CvP", Src("FconvP")), {"CvP"}, {})     \* converter taking *int
  @@ "convE"   :> F("FconvE" :> Call("CvE", Src("FconvE")), {"CvE"}, {"CvE"})  \* converter returning (int, error)
  @@ "mapE"    :> F("FmapE" :> Call("GetE", Src("GeBack")), {"GetE"}, {"GetE"}) \* :map GetE() FmapE, getter returning (int, error)
  @@ "slcopy"  :> F("Fslcopy" :> Slice("Fslcopy"), {}, {})                   \* []int -> []int
  @@ "slloop"  :> F("Fslloop" :> Slice("Fslloop"), {}, {})                   \* []EW -> []EW (element loop)
  @@ "slcast"  :> F("Fslcast" :> Slice("Fslcast"), {}, {})                   \* []int -> []int64 under :typecast
  @@ "sltags"  :> F("Fsltags" :> Slice("Fsltags"), {}, {})                   \* defined slice type
  @@ "slget"   :> F("Fslget" :> Slice("GslBack"), {}, {})                    \* the source is a getter returning its backing slice
  @@ "slptr"   :> F("Fslptr" :> Slice("Fslptr"), {}, {})                     \* []*int -> []*int (fresh array of the same pointers)
  @@ "slstruct":> F("Fslstruct" :> Slice("Fslstruct"), {}, {})               \* []EN -> []EN
  @@ "slbyte"  :> F("Fslbyte" :> Slice("Fslbyte"), {}, {})                   \* []byte -> []byte: an empty source gives an empty, allocated destination - not nil
  @@ "slbtag"  :> F("Fslbtag" :> Slice("Fslbtag"), {}, {})                   \* a defined type over []byte
  @@ "slext"   :> F("Fslext" :> Slice("Fslext"), {}, {})                     \* []vrt.VInt -> []vrt.VInt (element type of an imported package)
  @@ "slextp"  :> F("Fslextp" :> Slice("Fslextp"), {}, {})                   \* []*vrt.VS -> []*vrt.VS
  @@ "slhid"   :> F(("Fh.Entries" :> OptSlice("Fh.Entries")) @@ ("Fh.K" :> Src("Fh.K")), {}, {})   \* []vrt.vhid inside imported structs copied member by member
  @@ "slnest"  :> F(("Fsn.L" :> Slice("Fsn.L")) @@ ("Fsn.K" :> Src("Fsn.K")), {}, {})   \* a slice member of a nested by-value struct
  @@ "nest"    :> F(("Fnest.X" :> Src("Fnest.X")) @@ ("Fnest.Y" :> Src("Fnest.Y")), {}, {})   \* member-wise, by value
  @@ "nestE"   :> F(("FnestE.X" :> Call("CvE2", Src("FnestE.X"))) @@ ("FnestE.Y" :> Src("FnestE.Y")), {"CvE2"}, {"CvE2"})
  @@ "nestE2"  :> F(("FnestD.In.X" :> Call("CvE3", Src("FnestD.In.X"))) @@ ("FnestD.In.Y" :> Src("FnestD.In.Y")) @@ ("FnestD.K" :> Src("FnestD.K")),
                    {"CvE3"}, {"CvE3"})                                     \* error-returning converter two structs deep
  @@ "ptr"     :> F("Fptr" :> Src("Fptr"), {}, {})                           \* pointer value copied
  @@ "mapptr"  :> F("Fmp" :> Src("Pq"), {}, {})                            \* :map Pq Fmp, both *int: the pointer itself is the value - nil included
  @@ "npath"   :> F("Fnp" :> Via("Pn", "Pn.X"), {}, {})                      \* :map Pn.X Fnp through the pointer member Pn *EN
  @@ "sibpfx"  :> F(("Fsp.X" :> Lit("42")) @@ ("Fsp.Y" :> Src("Fsp.Y")) @@ ("FspQ.Pub" :> Src("FspQ.Pub")) @@ ("FspQ.hid" :> Src("FspQ.hid")), {}, {})
                                                                               \* :literal Fsp.X 42 makes Fsp member-wise; its sibling FspQ - whose name merely STARTS like it -
                                                                               \* is an imported struct with a hidden member and stays a whole-value copy
  @@ "twin"    :> F(("Ftwa.In.X" :> Src("Ftwa.In.X")) @@ ("Ftwa.In.Y" :> Src("Ftwa.In.Y")) @@ ("Ftwa.K" :> Src("Ftwa.K"))
                    @@ ("Ftwb.In.X" :> Lit("42")) @@ ("Ftwb.K" :> Src("Ftwb.K")), {}, {})
                                                                               \* two members of ONE struct type, both assignable as a whole; :literal Ftwb.In.X 42 and
                                                                               \* :skip Ftwb.In.Y sit two levels below the SECOND one only: that one is copied member by
                                                                               \* member (its Y keeps its value), the first one may be copied as a whole
  @@ "skipci"  :> F(None, {}, {})                                            \* :skip fskipci, then :case:off BELOW it on the same method: the last case rule decides
  @@ "skip"    :> F(None, {}, {})                                            \* :skip Fskip - the leaf keeps its value
  @@ "nomatch" :> F(None, {}, {})                                            \* no source - the leaf keeps its value
AllKinds == DOMAIN Frag
ErrKinds == {k \in AllKinds : Frag[k].errsites # {}}
=============================================================================
