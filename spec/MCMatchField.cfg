SPECIFICATION Spec
CONSTANTS
  DstTypes <- AllTypes
  SrcTypes <- AllTypes
INVARIANTS OptInOnly NoneMeansNone NameRule AssignableTaken Total SliceNeverAssigned Emit
CHECK_DEADLOCK FALSE
