SPECIFICATION SpecStale
CONSTANTS
  Pats <- MCPatsSeq
  Paths <- MCPathsSeq
  SeqPaths <- MCPathsSeq
  MaxQ = 2
INVARIANTS HistoryFree
CHECK_DEADLOCK FALSE
