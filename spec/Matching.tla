------------------------------ MODULE Matching ------------------------------
(***************************************************************************)
(* The struct-level walk of builder/assignment.go (structToStruct ->       *)
(* matchStructFieldAndStruct -> structFieldAndStructGettersAndFields), with *)
(* explicit notations and member-wise descent, over the "note world" of    *)
(* WorldTable (struct shapes, method sets, converter functions and the     *)
(* assignability / convertibility relations, generated from go/types).     *)
(*                                                                         *)
(*   C05  every accessible destination leaf is covered exactly once by an  *)
(*        assignment, a skip line or a no-match line on itself or on an    *)
(*        enclosing struct; inaccessible members are never mentioned; each *)
(*        no-match is reported at the method or at the failing notation    *)
(*   C06  :skip beats everything (also whole-struct copies of ancestors);  *)
(*        a path named by :conv / :map / :literal takes its value from     *)
(*        exactly that source, or is no-match when it does not resolve     *)
(*   C04  (struct level) default matching inside nested structs            *)
(*   C07  (static) an error-capable source needs an error result           *)
(*                                                                         *)
(* One Visit action per destination member, children pushed in declaration *)
(* order.  For every visited path the machine records the SET of outcomes  *)
(* the properties permit (singleton where they fix it).                    *)
(***************************************************************************)
EXTENDS Naturals, Sequences, FiniteSets, TLC, Json, WorldTable

CONSTANTS Programs      \* the abstract programs to explore (records, see MCMatching)

\* The struct table of the world, without blank members: a member called _ can be neither read nor
\* assigned, so for the walk below it does not exist (model/util.go IterateStructFields).
\* Whether a member can be referred to from the generated package is a property of the MEMBER (vis: it is
\* exported, or declared in the setup file's own package) - not of the struct type it is reached through: a local
\* type defined over an imported struct, or an unnamed struct inside an imported type, still has foreign members.
WS == [t \in DOMAIN WStructs |-> [WStructs[t] EXCEPT !.fs = SelectSeq(@, LAMBDA f : f.n # "_")]]

(* program: [dst, src : root struct ids; args : seq of type ids (additional arguments);
             retErr : BOOLEAN; o : [case, getter, stringer, typecast : BOOLEAN, rule : "name"|"none"];
             notes : seq of notations]
   notation: [k : "skip"|"map"|"conv"|"lit", dst : seq of names,
              pk : "exact"|"prefix"|"suffix"|"tail"   (skip only),
              src : seq of [n : name, call : BOOLEAN, arg : 0 = source operand / i>=1 = additional argument i, first step only],
              fn : converter name, text : literal text] *)

VARIABLES prog, pc, todo, plan, warns, reject
vars == <<prog, pc, todo, plan, warns, reject>>

----------------------------------------------------------------------------
(* helpers over the world tables *)
IsPtr(t)    == WKind[t] = "ptr"
Deref(t)    == IF IsPtr(t) THEN WPtrElem[t] ELSE t
HasAddr(t)  == IsPtr(t)      \* what a pointer points to has an address
IsStructId(t) == t \in DOMAIN WS
ByValueStruct(t) == IsStructId(t)
Asg(a, b)   == <<a, b>> \in WAssignable
Cnv(a, b)   == <<a, b>> \in WConvertibleOnly
Renderable(t) == WKind[t] \in {"basic", "named"}

Lower(n) == WLower[n]
NameEq(a, b, exact) == IF exact THEN a = b ELSE Lower(a) = Lower(b)
PathEq(p, q, exact) == Len(p) = Len(q) /\ \A i \in 1..Len(p) : NameEq(p[i], q[i], exact)
IsPrefix(p, q) == Len(p) <= Len(q) /\ SubSeq(q, 1, Len(p)) = p
StrictPrefix(p, q) == Len(p) < Len(q) /\ SubSeq(q, 1, Len(p)) = p

RECURSIVE JoinFrom(_, _)
JoinFrom(p, i) == IF i > Len(p) THEN "" ELSE IF i = Len(p) THEN p[i] ELSE p[i] \o "." \o JoinFrom(p, i + 1)
Join(p) == JoinFrom(p, 1)

Out(k, t, m, e) == [k |-> k, t |-> t, m |-> m, e |-> e]
NoMatch == Out("nomatch", "", "", "")
Skip    == Out("skip", "", "", "")
RejectO == Out("reject", "", "", "")

Notes == prog.notes
NoteIdx == DOMAIN Notes
O == prog.o

----------------------------------------------------------------------------
(* :skip patterns (their regular-expression semantics proper is C19's; here: exact path,
   "^P\." prefix, "(^|\.)X$" suffix and "X$" tail forms, compared under the method's case rule) *)
SkipMatches(n, p) ==
  CASE n.pk = "exact"  -> PathEq(n.dst, p, O.case)
    [] n.pk = "prefix" -> Len(p) > Len(n.dst) /\ PathEq(n.dst, SubSeq(p, 1, Len(n.dst)), O.case)
    [] n.pk = "suffix" -> Len(p) >= 1 /\ NameEq(n.dst[1], p[Len(p)], O.case)
    \* "X$": a regular expression without a dot in its text that nevertheless reaches nested members (the world has
    \* no other name ending in that text, which the harness asserts)
    [] n.pk = "tail"   -> Len(p) >= 1 /\ NameEq(n.dst[1], p[Len(p)], O.case)
ShouldSkip(p) == \E i \in NoteIdx : Notes[i].k = "skip" /\ SkipMatches(Notes[i], p)

\* explicit (non-skip) notations naming path p exactly; these always compare case-sensitively
ExplicitAt(p) == {i \in NoteIdx : Notes[i].k \in {"map", "conv", "lit"} /\ Notes[i].dst = p}

\* accessible member paths strictly below p in a by-value struct type t (existing paths only)
RECURSIVE PathsBelow(_, _, _)
PathsBelow(p, t, depth) ==
  IF ~IsStructId(t) \/ depth = 0 THEN {}
  ELSE UNION {{Append(p, WS[t].fs[i].n)} \cup PathsBelow(Append(p, WS[t].fs[i].n), WS[t].fs[i].t, depth - 1)
              : i \in {j \in DOMAIN WS[t].fs : WS[t].fs[j].vis}}
\* does some notation address an existing path strictly below p?
AddressedBelow(p, t) ==
  \E q \in PathsBelow(p, t, 3) : ShouldSkip(q) \/ ExplicitAt(q) # {}

\* type of the destination member at path p below struct type t ("NONE" if there is none)
RECURSIVE TypeAtFrom(_, _, _)
TypeAtFrom(t, p, i) ==
  IF i > Len(p) THEN t
  ELSE IF ~IsStructId(t) THEN "NONE"
  ELSE LET fs == {j \in DOMAIN WS[t].fs : WS[t].fs[j].n = p[i]} IN
       IF fs = {} THEN "NONE" ELSE TypeAtFrom(WS[t].fs[CHOOSE j \in fs : TRUE].t, p, i + 1)
TypeAt(t, p) == TypeAtFrom(t, p, 1)

----------------------------------------------------------------------------
(* the conversion ladder of castNode for a term of type st against target dt *)
Cast(dt, st, term) ==
  IF Asg(st, dt) THEN {Out("assign", term, "", "")}
  ELSE LET str == IF O.stringer /\ Asg("string", dt) /\ st \in WHasStringV
                    THEN {Out("str", term \o ".String()", "", "")} ELSE {}
           \* a conversion spells out the target type: the generated package must be able to name it
           cst == IF O.typecast /\ Cnv(st, dt) /\ Renderable(dt) /\ dt \in WNameable
                    THEN {Out("cast", "cast[" \o dt \o "](" \o term \o ")", "", "")} ELSE {}
       IN str \cup cst       \* both applicable: either is permitted

(* source path resolution (resolveExpr / resolveTemplatedExpr): from the root source operand, or
   from additional argument i for "$i+1"; fields (direct, or promoted through one embedded member),
   calls of methods with no parameter and one result or (T, error) - the latter only as last step;
   every step accessible from the generated package; names compared exactly. *)
FieldIn(t, name) ==
  LET s == WS[t]
      direct == {i \in DOMAIN s.fs : s.fs[i].n = name} IN
  IF direct # {} THEN LET i == CHOOSE i \in direct : TRUE IN
                        [ok |-> s.fs[i].vis, t |-> s.fs[i].t]
  ELSE LET embs == {i \in DOMAIN s.fs : s.fs[i].emb /\ IsStructId(Deref(s.fs[i].t))
                                         /\ \E j \in DOMAIN WS[Deref(s.fs[i].t)].fs : WS[Deref(s.fs[i].t)].fs[j].n = name} IN
       IF embs = {} THEN [ok |-> FALSE, t |-> "NONE"]
       ELSE LET i == CHOOSE i \in embs : TRUE
                et == Deref(s.fs[i].t)
                j == CHOOSE j \in DOMAIN WS[et].fs : WS[et].fs[j].n = name IN
            [ok |-> WS[et].fs[j].vis, t |-> WS[et].fs[j].t]
MethodIn(t, name) ==
  LET s == WS[t]
      ms == {i \in DOMAIN s.ms : s.ms[i].n = name} IN
  IF ms = {} THEN [ok |-> FALSE, t |-> "NONE", err |-> FALSE, ptr |-> FALSE]
  ELSE LET i == CHOOSE i \in ms : TRUE IN
       [ok |-> s.ms[i].callable /\ s.ms[i].vis, t |-> s.ms[i].t, err |-> s.ms[i].err, ptr |-> s.ms[i].ptr]

RECURSIVE ResolveFrom(_, _, _, _, _)
\* returns [ok, term, t, err, call]; call = the last step is a call (not addressable)
ResolveFrom(steps, i, term, t, isCall) ==
  IF i > Len(steps) THEN [ok |-> TRUE, term |-> term, t |-> t, err |-> FALSE, call |-> isCall]
  ELSE LET st == steps[i]  base == Deref(t) IN
       IF ~IsStructId(base) THEN [ok |-> FALSE, term |-> "", t |-> "NONE", err |-> FALSE, call |-> FALSE]
       ELSE IF st.call
         THEN LET m == MethodIn(base, st.n) IN
              \* a method with a pointer receiver needs an address: the result of a call has none, unless it is a pointer
              IF ~m.ok \/ (m.ptr /\ isCall /\ ~HasAddr(t)) THEN [ok |-> FALSE, term |-> "", t |-> "NONE", err |-> FALSE, call |-> FALSE]
              ELSE IF i = Len(steps) THEN [ok |-> TRUE, term |-> term \o "." \o st.n \o "()", t |-> m.t, err |-> m.err, call |-> TRUE]
              ELSE IF m.err THEN [ok |-> FALSE, term |-> "", t |-> "NONE", err |-> FALSE, call |-> FALSE]
              ELSE ResolveFrom(steps, i + 1, term \o "." \o st.n \o "()", m.t, TRUE)
         ELSE LET f == FieldIn(base, st.n) IN
              IF ~f.ok THEN [ok |-> FALSE, term |-> "", t |-> "NONE", err |-> FALSE, call |-> FALSE]
              ELSE ResolveFrom(steps, i + 1, term \o "." \o st.n, f.t, FALSE)

ArgRoot(k) == "ARG" \o ToString(k)
Fail == [ok |-> FALSE, term |-> "", t |-> "NONE", err |-> FALSE, call |-> FALSE]
\* first step [arg |-> 0]: a path from the source operand.  [arg |-> k], k >= 1: the "$k" form - "$1" is the
\* source operand itself, "$k" (k >= 2) additional argument k-1; the path proper starts at step 2.
Resolve(n) ==
  LET k == n.src[1].arg IN
  IF k = 0 THEN ResolveFrom(n.src, 1, "SRC", prog.src, FALSE)
  ELSE IF k = 1 THEN ResolveFrom(n.src, 2, "SRC", prog.src, FALSE)
  ELSE IF k - 1 > Len(prog.args) THEN Fail
  ELSE ResolveFrom(n.src, 2, ArgRoot(k - 2), prog.args[k - 1], FALSE)

WithErr(S, e) == {[o EXCEPT !.e = IF e /\ o.k # "nomatch" THEN "err" ELSE ""] : o \in S}
\* an error-capable source in a method without error result: reject, or give up (C07)
NeedsErr(S, e) == IF e /\ ~prog.retErr THEN {RejectO, NoMatch} ELSE WithErr(S, e)
OrNoMatch(S) == IF S = {} THEN {NoMatch} ELSE S

ExplicitOutcome(i, dt) ==
  LET n == Notes[i] IN
  CASE n.k = "lit"  -> {Out("assign", "lit:" \o n.text, "", "")}
    [] n.k = "map"  -> LET r == Resolve(n) IN
                       IF ~r.ok THEN {NoMatch}
                       \* a call that also returns an error can only be assigned as it is ("x, err = call()"):
                       \* no String() or conversion can be wrapped around it
                       ELSE LET c == IF r.err THEN {o \in Cast(dt, r.t, r.term) : o.k = "assign"} ELSE Cast(dt, r.t, r.term) IN
                            NeedsErr(OrNoMatch(c), r.err /\ c # {})
    [] n.k = "conv" -> LET f == WFuncs[n.fn]  r == Resolve(n) IN
                       IF ~r.ok \/ r.err THEN {NoMatch}
                       ELSE LET P == f.params[1]  R == f.results[1]  e == Len(f.results) = 2
                                direct == Cast(P, r.t, r.term)
                                viaAddr == IF direct = {} /\ IsPtr(P) THEN Cast(Deref(P), r.t, r.term) ELSE {}
                                argTerms == {a.t : a \in direct}
                                            \* "&x" needs an addressable x; taking the address of a call result does not compile:
                                            \* only giving up is permitted there
                                            \cup {"&" \o a.t : a \in {b \in viaAddr : ~r.call /\ b.k = "assign"}}
                                all == UNION {Cast(dt, R, n.fn \o "(" \o a \o ")") : a \in argTerms}
                                \* a converter that also returns an error can only be assigned as it is
                                calls == IF e THEN {o \in all : o.k = "assign"} ELSE all IN
                            NeedsErr(OrNoMatch(calls), e /\ calls # {})

----------------------------------------------------------------------------
(* default matching of one destination member inside the current source struct *)
\* addr: the value the getter is called on has an address (a variable, a member of one, or a pointer's target)
SrcGetters(st, leaf, addr) ==
  IF ~O.getter \/ O.rule # "name" \/ ~IsStructId(Deref(st)) THEN << >>
  ELSE SelectSeq(WS[Deref(st)].ms, LAMBDA m : m.getter /\ m.vis /\ (m.ptr => addr \/ HasAddr(st)) /\ NameEq(leaf, m.n, O.case))
SrcFields(st, leaf) ==
  IF O.rule # "name" \/ ~IsStructId(Deref(st)) THEN << >>
  ELSE SelectSeq(WS[Deref(st)].fs, LAMBDA f : f.vis /\ NameEq(leaf, f.n, O.case))

\* a slice is copied into fresh storage (C16), made as a []E: the ELEMENT type has to be nameable (the slice
\* type itself need not be: an unexported defined slice type takes a []E). A slice whose element type the
\* generated package cannot name is not matched at all - assigned as a whole it would share its elements
SliceRule(dt, st, term) ==
  IF dt = st /\ WSliceElem[dt] \in WNameable THEN {Out("slice", term, "copy", ""), Out("slice", term, "loop", "")} ELSE {}

\* outcome of ONE candidate: whole-value outcomes, and whether member-wise descent applies
Whole(dt, ct, term) == IF dt \in WSlices /\ ct \in WSlices THEN SliceRule(dt, ct, term) ELSE Cast(dt, ct, term)
CanNest(dt, ct) == ByValueStruct(dt) /\ ByValueStruct(ct)

Frame(path, dt, srcTerm, srcT, addr) == [path |-> path, dt |-> dt, srcTerm |-> srcTerm, srcT |-> srcT, addr |-> addr]
Children(f, ct, cterm, caddr) ==
  LET s == WS[f.dt]
      kids == SelectSeq(s.fs, LAMBDA m : m.vis) IN
  [i \in 1..Len(kids) |-> Frame(Append(f.path, kids[i].n), kids[i].t, cterm, ct, caddr)]

Put(path, alts, kind) == plan' = Append(plan, [path |-> Join(path), alts |-> alts, kind |-> kind])
Alt(o, pos) == [o |-> o, pos |-> pos]

----------------------------------------------------------------------------
Init == /\ prog \in Programs
        /\ pc = "resolve" /\ todo = << >> /\ plan = << >> /\ warns = {} /\ reject = FALSE

\* parser: every :conv names a function of acceptable shape (resolveConverters), else the run is rejected
ConvOK(n) == LET f == WFuncs[n.fn] IN
               /\ f.kind = "func" /\ Len(f.params) = 1
               /\ (Len(f.results) = 1 \/ (Len(f.results) = 2 /\ f.results[2] = "error"))
ResolveStep ==
  /\ pc = "resolve"
  /\ IF \E i \in NoteIdx : Notes[i].k = "conv" /\ ~ConvOK(Notes[i])
       THEN reject' = TRUE /\ pc' = "done" /\ UNCHANGED todo
       ELSE /\ reject' = FALSE /\ pc' = "walk"
            /\ todo' = Children(Frame(<< >>, prog.dst, "SRC", prog.src, TRUE), prog.src, "SRC", TRUE)
  /\ UNCHANGED <<prog, plan, warns>>

Visit ==
  /\ pc = "walk" /\ todo # << >>
  /\ LET f == Head(todo)  rest == Tail(todo)  leaf == f.path[Len(f.path)]
         E == ExplicitAt(f.path) IN
     IF ShouldSkip(f.path) THEN
        /\ Put(f.path, {Alt(Skip, "")}, "skip") /\ todo' = rest /\ UNCHANGED warns
     ELSE IF E # {} THEN
        \* any one of the notations naming this path may be the one that counts (the properties are silent)
        \* ... unless a :skip addresses a member below this struct: a whole-struct value would assign the skipped
        \* member, so the only outcome that honours both notations is to give up
        LET skipBelow == ByValueStruct(f.dt) /\ \E q \in PathsBelow(f.path, f.dt, 3) : ShouldSkip(q)
            alts == IF skipBelow THEN {Alt(NoMatch, "note" \o ToString(i)) : i \in E}
                    ELSE UNION {{Alt(o, "note" \o ToString(i)) : o \in ExplicitOutcome(i, f.dt)} : i \in E} IN
        /\ Put(f.path, alts, "explicit") /\ todo' = rest
        /\ warns' = warns \cup {[path |-> Join(f.path), pos |-> a.pos] : a \in {b \in alts : b.o.k = "nomatch"}}
     ELSE
        LET gs == SrcGetters(f.srcT, leaf, f.addr)
            fs == SrcFields(f.srcT, leaf)
            \* the candidate that counts: first getter, else first field (several fold-equal candidates
            \* do not occur in this world; MatchField covers the ambiguity)
            hasG == gs # << >>
            gTerm == IF hasG THEN f.srcTerm \o "." \o gs[1].n \o "()" ELSE ""
            gT    == IF hasG THEN gs[1].t ELSE "NONE"
            gWhole == IF hasG THEN Whole(f.dt, gT, gTerm) ELSE {}
            gNest == hasG /\ gWhole = {} /\ CanNest(f.dt, gT)
            hasF == fs # << >>
            fTerm == IF hasF THEN f.srcTerm \o "." \o fs[1].n ELSE ""
            fT    == IF hasF THEN fs[1].t ELSE "NONE"
            fWhole == IF hasF THEN Whole(f.dt, fT, fTerm) ELSE {}
            fNest == hasF /\ fWhole = {} /\ CanNest(f.dt, fT)
            below == ByValueStruct(f.dt) /\ AddressedBelow(f.path, f.dt)
            \* a notation below a by-value struct forces member-wise descent even if the whole is copyable
            gMust == hasG /\ below /\ CanNest(f.dt, gT)
            fMust == hasF /\ below /\ CanNest(f.dt, fT)
        IN
        IF gMust \/ gNest THEN
           \* below a getter's result nothing has an address, unless the result is a pointer
           /\ todo' = Children(f, gT, gTerm, HasAddr(gT)) \o rest /\ UNCHANGED <<plan, warns>>
        ELSE IF gWhole # {} THEN
           /\ Put(f.path, {Alt(o, "method") : o \in gWhole}, "default") /\ todo' = rest /\ UNCHANGED warns
        ELSE IF fMust \/ fNest THEN
           /\ todo' = Children(f, fT, fTerm, f.addr \/ HasAddr(f.srcT) \/ HasAddr(fT)) \o rest /\ UNCHANGED <<plan, warns>>
        ELSE IF fWhole # {} THEN
           /\ Put(f.path, {Alt(o, "method") : o \in fWhole}, "default") /\ todo' = rest /\ UNCHANGED warns
        ELSE
           /\ Put(f.path, {Alt(NoMatch, "method")}, "default") /\ todo' = rest
           /\ warns' = warns \cup {[path |-> Join(f.path), pos |-> "method"]}
  /\ UNCHANGED <<prog, pc, reject>>

Finish == pc = "walk" /\ todo = << >> /\ pc' = "done" /\ UNCHANGED <<prog, todo, plan, warns, reject>>

Next == ResolveStep \/ Visit \/ Finish
Spec == Init /\ [][Next]_vars
Done == pc = "done"

----------------------------------------------------------------------------
(* the properties, on the model *)
PlanPaths == {plan[i].path : i \in DOMAIN plan}
\* accessible member paths of the destination, computed from the type table independently of the walk
AllPaths == PathsBelow(<< >>, prog.dst, 4)
PlanQ == {q \in AllPaths : Join(q) \in PlanPaths}
Entry(q) == plan[CHOOSE i \in DOMAIN plan : plan[i].path = Join(q)]
Leaves == {p \in AllPaths : ~\E q \in AllPaths : StrictPrefix(p, q)}
\* C05: never mention what the package cannot see, nor anything that does not exist
NeverMentionInaccessible == \A i \in DOMAIN plan : \E q \in AllPaths : Join(q) = plan[i].path
\* C05: no path twice, and no line below a line (a covered struct is not covered member-wise as well)
ExactlyOnce == Done /\ ~reject =>
  /\ Cardinality(PlanPaths) = Len(plan)
  /\ \A q1, q2 \in PlanQ : q1 # q2 => ~IsPrefix(q1, q2)
\* C05: every accessible leaf is covered by a line on itself or on an enclosing struct
NothingDropped == Done /\ ~reject => \A p \in Leaves : \E q \in PlanQ : IsPrefix(q, p)
\* C05: a warning for every possible no-match, positioned at the method or at the notation
WarnPerNoMatch == Done /\ ~reject =>
  warns = UNION {{[path |-> plan[i].path, pos |-> a.pos] : a \in {b \in plan[i].alts : b.o.k = "nomatch"}} : i \in DOMAIN plan}
\* C06: a path matching a :skip pattern is never assigned, nor is any enclosing struct copied as a whole
SkipWins == Done /\ ~reject => \A p \in AllPaths : ShouldSkip(p) =>
  \A q \in PlanQ : IsPrefix(q, p) => \A a \in Entry(q).alts : a.o.k \in {"skip", "nomatch", "reject"}
\* C06: a path named by an explicit notation never falls back to the default name match
ExplicitNeverDefault == \A i \in DOMAIN plan : plan[i].kind = "explicit" =>
  \A a \in plan[i].alts : a.pos # "method"
\* C07 (static): no error-capable statement in a method without error result
ErrNeedsErrResult == \A i \in DOMAIN plan : \A a \in plan[i].alts : a.o.e = "err" => prog.retErr
\* C04 at struct level: conversions only when opted in
OptInOnly == \A i \in DOMAIN plan : \A a \in plan[i].alts :
               /\ (a.o.k = "cast" => O.typecast) /\ (a.o.k = "str" => O.stringer)

Emit == Done => PrintT(<<"CASE", ToJson([prog |-> prog, reject |-> reject, plan |-> plan, warns |-> warns,
                                         leaves |-> {Join(p) : p \in Leaves}, paths |-> {Join(p) : p \in AllPaths}])>>)
=============================================================================
