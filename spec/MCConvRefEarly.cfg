SPECIFICATION SpecEarly
INVARIANTS PlacementFree
CHECK_DEADLOCK FALSE
