------------------------------ MODULE MCSkipOptions ------------------------------
EXTENDS SkipOptions
MCPats == {RePat(Cat(Bol, Cat(Lit("a"), Eol))), RePat(Lit("K")), RePat(Cat(Perl("S"), Cat(Lit("e"), Eol))), RePat(Cat(Bol, Perl("W"))),
           RePat(Cat(Bol, Cls({"a", "K"}, TRUE))), RePat(Cat(Lit("DOT"), Lit("K"))), RePat(Cat(Lit("LONGS"), Eol)),
           \* texts with a comma: a counted repetition and a class that lists one
           RePat(Cat(Bol, Cat(Rep12(Lit("a")), Eol))), RePat(Cat(Bol, Cat(Lit("K"), Cat(Rep12(Lit("e")), Eol)))), RePat(Cat(Bol, Cat(Cls({"a", "COMMA"}, FALSE), Eol))),
           PlainPat(<<"a">>), PlainPat(<<"SLASH", "a">>), PlainPat(<<"a", "SLASH">>), PlainPat(<<"SLASH">>), PlainPat(<<"A", "K">>), PlainPat(<<"KELVIN">>), PlainPat(<<"a", "DOT", "K">>),
           PlainPat(<<"K", "e">>), PlainPat(<<"s", "DOT", "a">>)}
\* queried destination paths: identifiers (and nested paths) that can be real Go field names
MCPaths == << <<"a">>, <<"A">>, <<"A", "K">>, <<"a", "K">>, <<"KELVIN">>, <<"K">>, <<"K", "e">>, <<"KELVIN", "e">>,
              <<"a", "DOT", "K">>, <<"a", "DOT", "k">>, <<"A", "DOT", "K">>, <<"s", "DOT", "a">>, <<"S", "DOT", "A">>,
              <<"s", "e">>, <<"LONGS">>, <<"s">>, <<"S">>, <<"e">>, <<"a", "e">> >>
MCNamePairs == << <<<<"a">>, <<"A">>>>, <<<<"a">>, <<"a">>>>, <<<<"K">>, <<"KELVIN">>>>, <<<<"s">>, <<"LONGS">>>>,
                  <<<<"a", "K">>, <<"A", "k">>>>, <<<<"a">>, <<"a", "a">>>>, <<<<"e">>, <<"a">>>> >>
=============================================================================
