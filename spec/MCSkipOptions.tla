------------------------------ MODULE MCSkipOptions ------------------------------
EXTENDS SkipOptions
MCPats == {RePat(Cat(Bol, Cat(Lit("a"), Eol))), RePat(Lit("K")), RePat(Cat(Perl("S"), Cat(Lit("e"), Eol))), RePat(Cat(Bol, Perl("W"))),
           RePat(Cat(Bol, Cls({"a", "K"}, TRUE))), RePat(Cat(Lit("DOT"), Lit("K"))), RePat(Cat(Lit("LONGS"), Eol)),
           PlainPat(<<"a">>), PlainPat(<<"A", "K">>), PlainPat(<<"KELVIN">>), PlainPat(<<"a", "DOT", "K">>),
           PlainPat(<<"K", "e">>), PlainPat(<<"s", "DOT", "a">>)}
\* queried destination paths: identifiers (and nested paths) that can be real Go field names
MCPaths == << <<"a">>, <<"A">>, <<"A", "K">>, <<"a", "K">>, <<"KELVIN">>, <<"K">>, <<"K", "e">>, <<"KELVIN", "e">>,
              <<"a", "DOT", "K">>, <<"a", "DOT", "k">>, <<"A", "DOT", "K">>, <<"s", "DOT", "a">>, <<"S", "DOT", "A">>,
              <<"s", "e">>, <<"LONGS">>, <<"s">>, <<"S">>, <<"e">>, <<"a", "e">> >>
MCNamePairs == << <<<<"a">>, <<"A">>>>, <<<<"a">>, <<"a">>>>, <<<<"K">>, <<"KELVIN">>>>, <<<<"s">>, <<"LONGS">>>>,
                  <<<<"a", "K">>, <<"A", "k">>>>, <<<<"a">>, <<"a", "a">>>>, <<<<"e">>, <<"a">>>> >>
=============================================================================
