SPECIFICATION Spec
INVARIANTS UnfitRejected ErrNeedsErrResult OperandOrder AdaptSound Emit
CHECK_DEADLOCK FALSE
