SPECIFICATION Spec
CONSTANTS
  Pats <- MCPatsQ
  Paths <- MCPathsQ
  SeqPaths <- MCPathsSeq
  MaxQ = 1
INVARIANTS HistoryFree PlainIsEquality Emit
PROPERTY PatStable
CHECK_DEADLOCK FALSE
