SPECIFICATION Spec
CONSTANTS
  Pats <- MCPats
  Paths <- MCPaths
  NamePairs <- MCNamePairs
  MaxNotes = 3
INVARIANTS OrderFree NameRule LastCaseWins Emit
CHECK_DEADLOCK FALSE
