SPECIFICATION Spec
CONSTANTS
  KindSets <- MCKindSets
INVARIANTS PreFirst PostLast AtMostOnce Complete Bounded EmitProg
PROPERTIES StopAfterFailure ErrStable Terminates
CHECK_DEADLOCK FALSE
