------------------------------ MODULE Matcher ------------------------------
(***************************************************************************)
(* Name and pattern matchers of convergen (pkg/option): reference          *)
(* semantics and the stateful matcher object.                              *)
(*                                                                         *)
(* C19: a plain :skip pattern matches a path iff the two are equal, or     *)
(* equal under Unicode simple case folding when the case rule is off; a    *)
(* /regexp/ pattern matches iff the RE2 expression finds a match in the    *)
(* path, case-insensitively when the case rule is off; the answer depends  *)
(* only on (pattern, path, case rule), never on earlier queries.           *)
(*                                                                         *)
(* The machine mirrors option.PatternMatcher: New compiles the pattern for *)
(* one case rule and caches the compiled form; Match(s, c) first brings    *)
(* the cache up to date (Recompile) and then answers FROM THE CACHE.  The  *)
(* answer is therefore a function of the cache, as in the code, and the    *)
(* invariant HistoryFree states that it nevertheless equals the reference  *)
(* Ref(pattern, s, c).  Dropping Recompile from Next makes TLC report      *)
(* HistoryFree violated (checked with MCMatcherStale.cfg), so the          *)
(* invariant is not vacuous.                                               *)
(*                                                                         *)
(* Characters are symbolic; CharTable (generated from Go's unicode         *)
(* package by the harness) supplies Chars, the simple-fold orbit           *)
(* representative Fold[c], and the ASCII classes IsWordC/IsDigitC/IsSpaceC.*)
(***************************************************************************)
EXTENDS MatcherRef

CONSTANTS Pats,        \* patterns: records [kind, re, pl]
          Paths,       \* subjects of the first query (sequences of Chars)
          SeqPaths,    \* subjects of later queries
          MaxQ         \* number of queries per behaviour

----------------------------------------------------------------------------
(* The matcher object. *)
VARIABLES pat,        \* pattern given to New
          init0,      \* case rule given to New (history variable, never overwritten)
          compiledCI, \* the cache: is the compiled form case-insensitive?
          pending,    \* query being answered, or NoQuery
          hist        \* answered queries, in order

vars == <<pat, init0, compiledCI, pending, hist>>
NoQuery == [s |-> << >>, c |-> TRUE, active |-> FALSE]

Init == /\ pat \in Pats
        /\ init0 \in BOOLEAN
        /\ compiledCI = ~init0
        /\ pending = NoQuery
        /\ hist = << >>

Begin(s, c) == /\ ~pending.active
               /\ Len(hist) < MaxQ
               /\ pending' = [s |-> s, c |-> c, active |-> TRUE]
               /\ UNCHANGED <<pat, init0, compiledCI, hist>>

\* PatternMatcher.Match: "if m.exactCase != exactCase { recompile }"
Recompile == /\ pending.active
             /\ compiledCI # ~pending.c
             /\ compiledCI' = ~pending.c
             /\ UNCHANGED <<pat, init0, pending, hist>>

\* the answer comes from the cached compiled form
FromCache(s) == IF pat.kind = "re" THEN Search(pat.re, s, compiledCI) ELSE PlainEq(pat.pl, s, compiledCI)

Answer == /\ pending.active
          /\ compiledCI = ~pending.c          \* cache is up to date
          /\ hist' = Append(hist, [s |-> pending.s, c |-> pending.c, ans |-> FromCache(pending.s)])
          /\ pending' = NoQuery
          /\ UNCHANGED <<pat, init0, compiledCI>>

\* the defect the property excludes: answering from a stale cache
AnswerStale == /\ pending.active
               /\ hist' = Append(hist, [s |-> pending.s, c |-> pending.c, ans |-> FromCache(pending.s)])
               /\ pending' = NoQuery
               /\ UNCHANGED <<pat, init0, compiledCI>>

QueryPaths == IF Len(hist) = 0 THEN Paths ELSE SeqPaths

Next == \/ \E s \in QueryPaths, c \in BOOLEAN : Begin(s, c)
        \/ Recompile
        \/ Answer
NextStale == \/ \E s \in QueryPaths, c \in BOOLEAN : Begin(s, c)
             \/ AnswerStale

Spec      == Init /\ [][Next]_vars
SpecStale == Init /\ [][NextStale]_vars

----------------------------------------------------------------------------
(* C19 on the model. *)
HistoryFree == \A k \in DOMAIN hist : hist[k].ans = Ref(pat, hist[k].s, hist[k].c)
\* the pattern is never changed by queries
PatStable == [][pat' = pat /\ init0' = init0]_vars
\* plain patterns: equality or fold-equality, nothing else (no substring, no wildcard)
PlainIsEquality == \A k \in DOMAIN hist : pat.kind = "plain" /\ hist[k].c => (hist[k].ans <=> hist[k].s = pat.pl)
\* switching the case rule off can only add matches for plain patterns
CaseOffMonotonePlain == \A s \in SeqPaths : pat.kind = "plain" => (Ref(pat, s, TRUE) => Ref(pat, s, FALSE))

Done == Len(hist) = MaxQ /\ ~pending.active
Emit == Done => PrintT(<<"Q", ToJson([pat |-> pat, init |-> init0, hist |-> hist])>>)
=============================================================================
