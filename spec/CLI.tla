------------------------------ MODULE CLI ------------------------------
(***************************************************************************)
(* The command-line and file-system contract of convergen                  *)
(* (main.go, pkg/config, pkg/runner, pkg/parser NewParser, pkg/generator   *)
(* Generate), as a state machine over the files a run can see or touch.    *)
(*                                                                         *)
(*   C12  a run behaves as if the output path were empty, whatever it      *)
(*        holds (older output, truncated output, broken Go)                *)
(*   C13  the result is a function of sources and flags only (input        *)
(*        spelling, working directory, environment are invisible)          *)
(*   C15  a run writes only its output and (with -log) its log; -dry or    *)
(*        a failing run leaves the output path as it was                   *)
(*   C18  default output path, -out, -dry, -print, -log, GOFILE            *)
(*                                                                         *)
(* File contents are abstract strings: "absent", "gen:<v>" (what the tool  *)
(* produces for setup version v on an empty path - the property's own      *)
(* definition of the reference), "trunc:<v>:<k>" (that content cut at      *)
(* truncation point k), "broken" (syntactically broken Go of the package), *)
(* "illtyped" (well-formed Go of the package that does not type-check),    *)
(* "dir" (a directory sits at the path), "noparent" (the parent directory  *)
(* does not exist).  The harness materialises each abstract state in a     *)
(* fresh directory, performs the action with the real binary and projects  *)
(* the resulting tree back to this vocabulary (binding B3).                *)
(*                                                                         *)
(* Run is written as the pipeline of pkg/runner.Run: OpenLog, Load..Build  *)
(* (which may fail for a rejected setup file), Format, Print, Write.       *)
(***************************************************************************)
EXTENDS Naturals, Sequences, FiniteSets, TLC, Json

CONSTANTS Accepted,      \* accepted setup-file versions, e.g. {"v1", "v2"}
          Rejected,      \* rejected versions, named by failing stage: {"bad:load", "bad:find", ...}
          TruncPoints,   \* truncation points of a reference output (strings; bound to byte offsets by the harness)
          Spellings,     \* how the input is named: "rel", "abs", "gofile", "both", "nested"; "link": absolute paths (input
                         \* and -out) spelled through a symbolic link to the module directory; "linkout": only the -out path is
          Placement,     \* how content gets to an output path: "file" - a regular file; "link" - the path is a symbolic
                         \* link to a file of a collection directory outside the module.  The ideal tool ignores it.
          Cwds,          \* working directory of the process: "pkg", "root", "sibling" (inside the module), "outside" (no module there),
                         \* "pkglink" (the package directory, entered through a symbolic link to the module directory)
          RecordHist,    \* TRUE: keep the action history (simulation walks); FALSE: exhaustive graph
          MaxHist,
          FlagSets,      \* the flag records explored by Run
          EnvActions     \* which environment actions are enabled: subset of {"edit","crash","crashC","corrupt","extend","blockD","blockC","remove"}

Versions == Accepted \cup Rejected
Accepts(v) == v \in Accepted
Flags == [dry: BOOLEAN, print: BOOLEAN, log: BOOLEAN, out: BOOLEAN]

Gen(v) == "gen:" \o v
Trunc(v, k) == "trunc:" \o v \o ":" \o k
\* "selflink": a symbolic link to the setup file sits at the -out path - writing there would overwrite a source
Blocked == {"dir", "noparent", "selflink"}
Garbage == {"broken", "illtyped"}

VARIABLES setup,   \* version of the setup file
          outD,    \* content at the default output path (<input>.gen.go)
          outC,    \* content at the custom output path given with -out
          logD,    \* log next to the default output: "absent" | "log"
          logC,    \* log next to the custom output
          rest,    \* every other file of the module: "clean" | "dirty"
          last,    \* observation of the last run: [exit, stdout]
          hist     \* action history (only when RecordHist)

vars == <<setup, outD, outC, logD, logC, rest, last, hist>>
State == [setup |-> setup, outD |-> outD, outC |-> outC, logD |-> logD, logC |-> logC, rest |-> rest, last |-> last]
View == <<setup, outD, outC, logD, logC, rest, hist>>

NoRun == [exit |-> "none", stdout |-> "none"]
StateP == [setup |-> setup', outD |-> outD', outC |-> outC', logD |-> logD', logC |-> logC', rest |-> rest', last |-> last']

\* without the Edit action a version can only be explored as an initial one
Init == /\ setup \in (IF "edit" \in EnvActions THEN Accepted ELSE Versions)
        /\ outD = "absent" /\ outC = "absent" /\ logD = "absent" /\ logC = "absent"
        /\ rest = "clean" /\ last = NoRun
        /\ hist = IF RecordHist THEN <<[act |-> [a |-> "init"], to |-> State]>> ELSE << >>

\* Record must be the last conjunct of an action: it reads every primed variable.
Record(a) == hist' = IF RecordHist THEN Append(hist, [act |-> a, to |-> StateP]) ELSE hist
Room == ~RecordHist \/ Len(hist) < MaxHist
Env(e) == e \in EnvActions

----------------------------------------------------------------------------
(* Environment actions. *)

\* the user edits the setup file
Edit(v) == /\ Room /\ Env("edit") /\ v # setup /\ setup' = v
           /\ UNCHANGED <<outD, outC, logD, logC, rest, last>>
           /\ Record([a |-> "edit", v |-> v])

\* an interrupted write of an earlier run left a prefix of its output
Crash(k) == /\ Room /\ Env("crash") /\ \E v \in Accepted : outD = Gen(v) /\ outD' = Trunc(v, k)
            /\ UNCHANGED <<setup, outC, logD, logC, rest, last>>
            /\ Record([a |-> "crash", k |-> k])

\* the same at the -out path
CrashC(k) == /\ Room /\ Env("crashC") /\ \E v \in Accepted : outC = Gen(v) /\ outC' = Trunc(v, k)
             /\ UNCHANGED <<setup, outD, logD, logC, rest, last>>
             /\ Record([a |-> "crashC", k |-> k])

\* something appended to the output: the previous content EXTENDS what a run would write
\* (e.g. the output of an older setup file that had one more method at the end)
Extend == /\ Room /\ Env("extend") /\ \E v \in Accepted : outD = Gen(v) /\ outD' = "ext:" \o v
          /\ UNCHANGED <<setup, outC, logD, logC, rest, last>>
          /\ Record([a |-> "extend"])

\* something else damaged the output file (same package, broken or ill-typed Go)
Corrupt(g) == /\ Room /\ Env("corrupt") /\ outD \notin Blocked /\ outD # g /\ outD' = g
              /\ UNCHANGED <<setup, outC, logD, logC, rest, last>>
              /\ Record([a |-> "corrupt", g |-> g])

\* the output path cannot be written: a directory sits there / its parent is missing
BlockD == /\ Room /\ Env("blockD") /\ outD = "absent" /\ outD' = "dir"
          /\ UNCHANGED <<setup, outC, logD, logC, rest, last>>
          /\ Record([a |-> "blockD"])
BlockC(b) == /\ Room /\ Env("blockC") /\ outC = "absent" /\ logC = "absent" /\ outC' = b
             /\ UNCHANGED <<setup, outD, logD, logC, rest, last>>
             /\ Record([a |-> "blockC", b |-> b])

\* the user removes generated files
Remove == /\ Room /\ Env("remove") /\ (outD # "absent" \/ outC # "absent")
          /\ outD' = "absent" /\ outC' = "absent"
          /\ UNCHANGED <<setup, logD, logC, rest, last>>
          /\ Record([a |-> "remove"])

----------------------------------------------------------------------------
(* One run of the tool: pkg/runner.Run as a pipeline.  sp (input spelling)  *)
(* and cwd are parameters the ideal tool ignores (C13, C18).                *)

Target(f)    == IF f.out THEN outC ELSE outD
LogOpenable(f) == ~f.log \/ ~(f.out /\ outC = "noparent")
Writable(f)  == Target(f) \notin Blocked

\* stage results
StageLog(f)   == LogOpenable(f)                    \* OpenLog: truncates/creates the log first
SelfOut(f)    == f.out /\ outC = "selflink"       \* the output path is the setup file itself: refused, with or without -dry
StageBuild(f) == StageLog(f) /\ Accepts(setup) /\ ~SelfOut(f)     \* Load .. Build .. Format
Writes(f)     == StageBuild(f) /\ ~f.dry /\ Writable(f)
ExitOf(f)     == IF StageBuild(f) /\ (f.dry \/ Writable(f)) THEN "0" ELSE "1"
\* -print shows the code that is (or with -dry would be) written
StdoutOf(f)   == IF f.print /\ ExitOf(f) = "0" THEN Gen(setup) ELSE "none"

\* With -out the default output path must be free: a file left there by an
\* earlier run is an ordinary source file of the package for a run that does
\* not designate it as its output, i.e. a different input (outside C12/C13).
RunEnabled(f) == f.out => outD = "absent"

Run(f, sp, cwd) ==
  /\ Room /\ RunEnabled(f)
  /\ outD' = IF Writes(f) /\ ~f.out THEN Gen(setup) ELSE outD
  /\ outC' = IF Writes(f) /\ f.out  THEN Gen(setup) ELSE outC
  /\ logD' = IF f.log /\ ~f.out /\ StageLog(f) THEN "log" ELSE logD
  /\ logC' = IF f.log /\ f.out  /\ StageLog(f) THEN "log" ELSE logC
  /\ last' = [exit |-> ExitOf(f), stdout |-> StdoutOf(f)]
  /\ UNCHANGED <<setup, rest>>
  /\ Record([a |-> "run", f |-> f, sp |-> sp, cwd |-> cwd])

----------------------------------------------------------------------------
Emit(a) == RecordHist \/ PrintT(<<"TRANS", ToJson([from |-> State, act |-> a, to |-> State'])>>)

Next == \/ \E v \in Versions : Edit(v) /\ Emit([a |-> "edit", v |-> v])
        \/ \E f \in FlagSets, sp \in Spellings, cwd \in Cwds : Run(f, sp, cwd) /\ Emit([a |-> "run", f |-> f, sp |-> sp, cwd |-> cwd])
        \/ \E k \in TruncPoints : Crash(k) /\ Emit([a |-> "crash", k |-> k])
        \/ \E k \in TruncPoints : CrashC(k) /\ Emit([a |-> "crashC", k |-> k])
        \/ \E g \in Garbage : Corrupt(g) /\ Emit([a |-> "corrupt", g |-> g])
        \/ Extend /\ Emit([a |-> "extend"])
        \/ BlockD /\ Emit([a |-> "blockD"])
        \/ \E b \in Blocked : BlockC(b) /\ Emit([a |-> "blockC", b |-> b])
        \/ Remove /\ Emit([a |-> "remove"])
Spec == Init /\ [][Next]_vars

----------------------------------------------------------------------------
(* The properties, on the model. *)
IsRun == \E f \in FlagSets, sp \in Spellings, cwd \in Cwds : Run(f, sp, cwd)

\* C15: nothing but output and log ever changes; the setup file is only changed by Edit
FrameRest == rest = "clean"
SetupOnlyByEdit == [][setup' # setup => \E v \in Versions : Edit(v)]_vars
\* C15: dry or failing runs leave both output paths untouched
FailLeavesOut == [][IsRun /\ last'.exit = "1" => UNCHANGED <<outD, outC>>]_vars
DryLeavesOut  == [][\A f \in FlagSets, sp \in Spellings, cwd \in Cwds : Run(f, sp, cwd) /\ f.dry => UNCHANGED <<outD, outC>>]_vars
\* C12: after a successful writing run the target holds exactly the reference for the current setup file,
\*      whatever it held before
Regenerated == [][\A f \in FlagSets, sp \in Spellings, cwd \in Cwds :
                    Run(f, sp, cwd) /\ last'.exit = "0" /\ ~f.dry =>
                      (IF f.out THEN outC' ELSE outD') = Gen(setup)]_vars
\* C12: exit status does not depend on previous output content (only on it being writable)
ExitIgnoresOut == [][\A f \in FlagSets, sp \in Spellings, cwd \in Cwds :
                    Run(f, sp, cwd) /\ Writable(f) /\ LogOpenable(f) => (last'.exit = "0" <=> Accepts(setup))]_vars
\* C12: running twice changes nothing
Idempotent == [][\A f \in FlagSets, sp \in Spellings, cwd \in Cwds :
                    Run(f, sp, cwd) /\ last.exit = "0" /\ (IF f.out THEN outC ELSE outD) = Gen(setup) /\ ~f.dry
                       => UNCHANGED <<outD, outC>>]_vars
\* C18: -print shows exactly what is (or would be) written
PrintEqualsWritten == [][\A f \in FlagSets, sp \in Spellings, cwd \in Cwds :
                    Run(f, sp, cwd) /\ f.print /\ last'.exit = "0" => last'.stdout = Gen(setup)]_vars
\* C18: -log changes neither exit status nor output (when the log can be opened): ExitOf, Writes and
\* StdoutOf mention f.log only through LogOpenable
LogInert == \A f \in FlagSets : LogOpenable(f) =>
              LET g == [f EXCEPT !.log = ~f.log] IN
                LogOpenable(g) => ExitOf(f) = ExitOf(g) /\ Writes(f) = Writes(g) /\ StdoutOf(f) = StdoutOf(g)
TypeOK == /\ setup \in Versions /\ Placement \in {"file", "link"}
          /\ logD \in {"absent", "log"} /\ logC \in {"absent", "log"}
          /\ last.exit \in {"none", "0", "1"}

WalkDone == RecordHist /\ Len(hist) = MaxHist
EmitWalk == WalkDone => PrintT(<<"WALK", ToJson(hist)>>)
=============================================================================
