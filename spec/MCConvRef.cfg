SPECIFICATION Spec
INVARIANTS PlacementFree ErrInherited Emit
CHECK_DEADLOCK FALSE
