#!/bin/bash
# development helper: run checks against a scratch worktree holding a seeded change
# usage: tools/trymutant.sh <worktree> <property>...   (prints one line per check)
wt=$1; shift
for p in "$@"; do
  out=$(VERIF_REPO=$wt timeout 1800 ${CHECK_BIN:-/verif/bin/check} $p 2>&1); code=$?
  echo "$p exit=$code $(echo "$out" | grep -c '^VIOLATION') violation line(s); $(echo "$out" | tail -1)"
  echo "$out" | grep -A1 '^VIOLATION' | grep '^  ' | head -2 | cut -c1-260
done
