#!/usr/bin/env python3
"""Refresh the generated tables of DESIGN.md section 11 (findings, seeded changes) from
known_findings.json and seeded/*/meta.json. Usage: python3 tools/design_tables.py"""
import json, glob, re, os
root = os.path.dirname(os.path.dirname(os.path.abspath(__file__)))
def cell(s, n):
    s = s.replace('|', '\\|').replace('\n', ' ')
    return s if len(s) <= n else s[:n-3] + '...'
fs = json.load(open(os.path.join(root, 'known_findings.json')))
rows = ['| id | property | commit | what failed |', '|---|---|---|---|']
for f in fs:
    if f['status'] == 'fixed':
        what = f['what'].split(f['commit'], 1)[1].strip() if f.get('commit') and f['commit'] in f['what'] else f['what']
        rows.append('| %s | %s | %s | %s |' % (f['id'], f['property'], f.get('commit', ''), cell(what, 260)))
fixed = '\n'.join(rows)
nfixed = len(rows) - 2
rows = ['| id | property | deviation | what fails / why not repaired |', '|---|---|---|---|']
for f in fs:
    if f['status'] == 'open':
        rows.append('| %s | %s | %s | %s |' % (f['id'], f['property'], f['deviation'], cell(f['what'], 420)))
opened = '\n'.join(rows)
rows = ['| id | what it needs to manifest | caught by | first attempt |', '|---|---|---|---|']
n = at_once = 0
for mf in sorted(glob.glob(os.path.join(root, 'seeded/*/meta.json'))):
    m = json.load(open(mf)); chk = str(m['checks']); low = chk.lower(); n += 1
    missed = any(k in low for k in ('first missed', 'was first missed', 'first attempt missed', 'first run ended with exit 2', 'once the rejected-input', 'missed it'))
    at_once += (not missed)
    rows.append('| %s (%s) | %s | %s | %s |' % (m['id'], m['breaks_property'], cell(m['needs_to_manifest'], 200), cell(chk, 300), 'missed, then strengthened' if missed else 'caught at once'))
seeded = '\n'.join(rows)
p = os.path.join(root, 'DESIGN.md'); s = open(p).read()
def put(s, tag, body):
    a, b = '<!-- %s-BEGIN -->' % tag, '<!-- %s-END -->' % tag
    return s[:s.index(a) + len(a)] + '\n' + body + '\n' + s[s.index(b):]
s = put(s, 'FIXED-TABLE', fixed); s = put(s, 'OPEN-TABLE', opened); s = put(s, 'SEEDED-TABLE', seeded)
s = re.sub(r'<!-- COUNTS -->.*?<!-- /COUNTS -->', '<!-- COUNTS -->%d findings (genuine defects of reedom/convergen, two of them sharing one repair) were repaired in /repo; %d seeded changes are filed, %d of them caught at the first attempt<!-- /COUNTS -->' % (nfixed, n, at_once), s, flags=re.S)
open(p, 'w').write(s)
print('fixed', nfixed, 'seeded', n, 'at once', at_once)
