#!/usr/bin/env python3
"""Regenerates /verif/MANIFEST.json from the table below (development helper;
the checks themselves never read this file)."""
import json

props = [json.loads(l) for l in open('/verif/properties.jsonl')]
ids = [p['id'] for p in props]

CHECKS = {
 "C01": dict(cat="translation_validation", sec="6 C01",
   text="the program space is enumerated by TLC from the matching / signature / hook / notation models; every program is run through the tool and every successfully generated file is judged by the Go toolchain itself: gofmt -l must be silent and go build of the package (ordinary build: setup file excluded by its tag, output included) must report no error; diagnostics are attributed to functions by position and confirmed in isolation",
   note="judge = gofmt and the Go compiler; generic types, cgo and third-party dependencies are outside the alphabet",
   tech="TLC-enumerated program space from the TLA+ models; translation validation of each output by gofmt and go build"),
 "C02": dict(cat="model_checking", sec="6 C02",
   text="""spec/GenExec.tla is the abstract machine of an emitted function (alloc, pre hook, statements in any order with every error-capable call possibly failing, post hook, return); TLC checks StopAfterFailure, ErrStable, PreFirst, PostLast, AtMostOnce, Complete and termination on it and prints the programs; the real tool generates them over instrumented user code, a reflection driver executes each function under three value vectors and up to 32 fault subsets, and TLC validates every recorded NDJSON trace against spec/GenExecTrace.tla (high-water-mark postcondition; rejected runs are confirmed alone and removed so the rest is still checked); for C02 the conjuncts values (every assigned leaf equals the value its term denotes on the source snapshot), frame (every other leaf keeps its previous value: zero, the caller's sentinel in arg style, or a by-pointer hook's write), src (source and arguments unmodified) and panic are enabled""",
   note="values are symbolic strings produced by injectively tagging user functions; copy direction :reverse and paths through nil pointers are not in the fragment alphabet; `bin/check C02 --selftest` corrupts/drops/inserts trace events and shows rejection",
   tech="TLA+ abstract machine checked by TLC; traces recorded from executing the real generated functions validated by TLC against the trace specification (code->spec trace validation)"),
 "C03": dict(cat="model_checking", sec="6 C03",
   text="""spec/Selection.tla scans the items of a setup file (declarations, interfaces, floating comments, file attributes) and builds the required output item sequence; TLC checks AcceptWellFormed, EveryMethod, OnlySelected, KeepsAllInOrder, DocsKept on the model; the acceptance family varies exactly the layout attributes the implementation's position arithmetic depends on (body shorter than the 21-character placeholder, one-line form, comments at every position, blank lines, adjacent second converter interface): 4608 layouts, each one setup file run through the tool; exit 0 and one function per method required""",
   note="layout attributes are ignored by the ideal specification (that is the property); grouped type declarations are not explored",
   tech="TLA+ selection/carry-over model checked by TLC; TLC-enumerated layouts replayed through the real tool"),
 "C04": dict(cat="model_checking", sec="6 C04",
   text="spec/MatchField.tla walks the matching ladder (candidate selection, slice rule, assignable, stringer, typecast, member-wise descent) over all pairs of a 36-type alphabet whose assignability/convertibility tables are generated from go/types; TLC checks OptInOnly/NoneMeansNone/NameRule/AssignableTaken on the model and prints each configuration with its set of permitted outcomes; each is concretised, run through the tool and the projected outcome class must be in the set",
   note="trusts TLC, go/types (type tables) and the syntactic projector of generated bodies; choice among ambiguous same-named candidates is not judged (the property is silent)",
   tech="TLA+ ladder model checked by TLC; TLC-enumerated cases replayed through the real tool and compared on projected function bodies (spec->code case replay)"),
 "C16": dict(cat="model_checking", sec="6 C16",
   text="run-time side by trace validation of executed generated functions (GenExec.tla / GenExecTrace.tla, four slice fragments incl. defined slice types, nil / empty / two-element values); static side: every slice pair of the alphabet for which MatchField.tla permits a copy (identical, assignable, convertible element types, defined slice types) must be emitted as a permitted fresh-copy shape (SliceNeverAssigned on the model)",
   note="run-time side: executed generated functions; the driver compares slice data pointers, and overwrites every source element before looking at the destination again (GenExecTrace conjunct slices: same elements, fresh storage, nil stays nil / previous value, isolation)",
   tech="TLA+ ladder model checked by TLC; emitted slice statements of TLC-enumerated cases compared with the permitted shapes"),
 "C05": dict(cat="model_checking", sec="6 C05",
   text="spec/Matching.tla walks destination structs of a typed 'note world' (nested, deep, embedded imported, anonymous, imported with unexported members, empty) with every notation set of MCMatching; TLC checks ExactlyOnce, NothingDropped, NeverMentionInaccessible, WarnPerNoMatch on the model and prints, per program, the accessible leaf set (computed from the type table independently of the walk) and the plan; in every generated function each leaf must be covered exactly once by an assign/skip/no-match line on itself or an enclosing struct, no line may address an inaccessible member, and stderr warnings must sit at the method or failing notation for exactly the no-match lines",
   note="the world tables (struct shapes, method sets, assignability) are generated from go/types; quick binds ~5.7k programs, thorough ~34k",
   tech="TLA+ struct-walk model checked by TLC; TLC-enumerated programs replayed through the real tool; covering relation and warnings checked on projected bodies and stderr"),
 "C06": dict(cat="model_checking", sec="6 C06",
   text="spec/Matching.tla encodes the precedence skip > explicit (:conv/:map/:map $n/:literal) > default, source path resolution (fields, getter chains, promoted/embedded members, pointers, $n arguments), argument adaptation of converters and member-wise descent when a notation addresses a nested member; TLC checks SkipWins, ExplicitNeverDefault, ErrNeedsErrResult on the model; for every program with notations the projected outcome of every plan path must be in the permitted set (incl. reject / no match for unresolvable or ill-typed sources)",
   note="one open known finding (explicit whole-struct value over a skipped member); :skip regexps here are the exact / prefix / suffix forms, full RE2 semantics is C19's",
   tech="TLA+ struct-walk model with notations checked by TLC; TLC-enumerated programs replayed through the real tool and compared per destination path"),
 "C07": dict(cat="model_checking", sec="6 C07",
   text="""spec/GenExec.tla is the abstract machine of an emitted function (alloc, pre hook, statements in any order with every error-capable call possibly failing, post hook, return); TLC checks StopAfterFailure, ErrStable, PreFirst, PostLast, AtMostOnce, Complete and termination on it and prints the programs; the real tool generates them over instrumented user code, a reflection driver executes each function under three value vectors and up to 32 fault subsets, and TLC validates every recorded NDJSON trace against spec/GenExecTrace.tla (high-water-mark postcondition; rejected runs are confirmed alone and removed so the rest is still checked); for C07 the conjunct errors is enabled: no call event may follow a failed call and the returned error must be the failing site's sentinel (nil if nothing failed); the static side (error-capable callee needs an error result) is ErrNeedsErrResult in Matching.tla / Hooks.tla, judged by C06 / C10 case replay""",
   note="fault subsets are exhaustive up to 5 error-capable sites (top-level and nested converters, error-returning getter, both hooks)",
   tech="TLA+ abstract machine with fault choice checked by TLC; fault-injected executions of the real generated functions validated by TLC against the trace specification"),
 "C08": dict(cat="model_checking", sec="6 C08",
   text="spec/Signature.tla computes the header (or reject) for the complete product of style x recv x reverse x pointer-ness x error x 0..3 additional arguments x named/unnamed x imported operands (2048 combinations); TLC checks the documented table as invariants (SrcOrRecvFirst, DstPlace, ArgsInOrder, ErrLast, NamesPreserved, IllegalRejected); every combination is run through the tool and the generated header is compared name by name and type by type",
   note="exhaustive over the stated product in both tiers; type expressions are compared as written in the generated file",
   tech="TLA+ signature model exhausted by TLC; every case replayed through the real tool and compared on the parsed function header"),
 "C09": dict(cat="model_checking", sec="6 C09",
   text="spec/Options.tla mirrors the copy structure of the parser (defaults -> interface entry -> per-method copy) and TLC checks Scope (interface default, method override, last notation wins) and DefaultsStable; an aliasing variant of the spec is shown to violate Scope (vacuity check); all 8748 placements of one focus setting at (A, A1, A2, B, B1) x backgrounds x duplicated notations are generated as two-interface files plus single-method files; effective settings are read off a probe struct pair in every function, own :skip honoured and foreign :skip absent, text identical to the single-method generation",
   note="under :match none only style and match are observable (nothing else can matter to the output); quick samples 1 in 9 plus a fixed core, thorough binds all cases",
   tech="TLA+ options-scoping model checked by TLC; TLC-enumerated notation placements replayed through the real tool and read back through a probe struct pair"),
 "C10": dict(cat="model_checking", sec="6 C10",
   text="run-time side: spec/GenExec.tla is the abstract machine of an emitted function (alloc, pre hook, statements in any order with every error-capable call possibly failing, post hook, return); TLC checks StopAfterFailure, ErrStable, PreFirst, PostLast, AtMostOnce, Complete and termination on it and prints the programs; the real tool generates them over instrumented user code, a reflection driver executes each function under three value vectors and up to 32 fault subsets, and TLC validates every recorded NDJSON trace against spec/GenExecTrace.tla (high-water-mark postcondition; rejected runs are confirmed alone and removed so the rest is still checked); static side: spec/Hooks.tla decides fit/reject and the emitted call for method shape x hook shape (5248 combinations incl. arity 0/1, operand mismatch, wrong results, unexported imported hook, missing, extra parameters none/all/fewer/wrong); TLC checks UnfitRejected, AdaptSound, OperandOrder, ErrNeedsErrResult on the model; every case is run through the tool and the call, its error check and its position relative to allocation and assignments are compared",
   note="run-time side: the same generated functions are executed with instrumented hooks that snapshot both operands and then overwrite every scalar destination field; GenExecTrace (conjunct hooks) requires Pre to see the initial destination, Post the fully assigned one, by-pointer writes to survive exactly where nothing is assigned later, arguments forwarded in order",
   tech="TLA+ hook-fit model exhausted by TLC; every case replayed through the real tool and compared on the projected call"),
 "C11": dict(cat="model_checking", sec="6 C11",
   text="""spec/Selection.tla scans the items of a setup file (declarations, interfaces, floating comments, file attributes) and builds the required output item sequence; TLC checks AcceptWellFormed, EveryMethod, OnlySelected, KeepsAllInOrder, DocsKept on the model; the carry-over family crosses declaration forms (var/func/type/const) with doc / trailing / go:generate-in-doc comments before and after a converter interface, floating comments, package doc, three build-constraint spellings and import sets (22464 layouts); the output is parsed and its declaration sequence with attached comments, package doc, forwarded method docs and the absence of directives, notation lines and the interface's doc are compared with the model's output items""",
   note="comparison is on parsed structure (attachment of comments to declarations), never on formatting; floating comments are recorded but not demanded",
   tech="TLA+ selection/carry-over model checked by TLC; TLC-enumerated layouts replayed through the real tool and compared on the parsed output"),
 "C12": dict(cat="model_checking", sec="6 C12",
   text="spec/CLI.tla models the files a run can see or touch; TLC checks Regenerated/ExitIgnoresOut/Idempotent on the model and enumerates every transition; every run transition from a state whose output path holds content (older output, truncated at a point, broken, ill-typed) is materialised and executed with the real binary next to its emptied twin; a crash sweep covers truncation offsets of the reference output; seeded TLC walks are replayed step by step",
   note="trusts TLC and the projection of the directory tree; reference bytes are the tool's own output on an empty path (the property's definition); thorough sweeps every byte offset",
   tech="TLA+ file-system model checked by TLC; TLC transitions and simulated walks replayed against the real binary (spec->code history replay)"),
 "C13": dict(cat="model_checking", sec="6 C13",
   text="the model's Run ignores input spelling, working directory and environment (parameters of the action that no conjunct reads); for each (state, flag set) of the TLC graph all spelling x cwd variants are executed repeatedly in fresh processes with scrambled environment and must agree byte for byte",
   note="detection of hidden nondeterminism is statistical: repetitions x inputs with several imports/interfaces; the date cannot be faked; a working directory outside the module is a recorded finding if listed in known_findings.json",
   tech="TLA+ model (Run independent of env parameters) + TLC-enumerated run variants executed repeatedly against the real binary and compared"),
 "C15": dict(cat="model_checking", sec="6 C15",
   text="FrameRest/DryLeavesOut/FailLeavesOut are checked by TLC on spec/CLI.tla; every run transition (accepted and 7 kinds of rejected setup files x 16 flag sets x output-path states incl. directory and missing parent x log states) is replayed with the real binary and the whole tree (module, TMPDIR, HOME) is hashed before and after",
   note="we run as root, so 'unwritable' is modelled by a directory at the path / a missing parent; go command artefacts under HOME (.config/go telemetry, .cache) are ignored",
   tech="TLA+ file-system model checked by TLC; every TLC run transition replayed against the real binary with tree snapshots"),
 "C17": dict(cat="model_checking", sec="6 C17",
   text="""spec/Selection.tla scans the items of a setup file (declarations, interfaces, floating comments, file attributes) and builds the required output item sequence; TLC checks AcceptWellFormed, EveryMethod, OnlySelected, KeepsAllInOrder, DocsKept on the model; the selection family enumerates all sequences of 1..3 declarations over {Convergen-named, :convergen-marked, unmarked, marker look-alike interfaces, non-interface type with a marker} x sibling file {none, marked interface, Convergen-named interface} (423 files, exhaustive in both tiers); converted ids, untouched survivors, rejection iff no converter interface in the input file and nothing generated for sibling files are compared with the model""",
   note="exhaustive for up to three interface declarations per file",
   tech="TLA+ selection model exhausted by TLC; every case replayed through the real tool and compared on the parsed output"),
 "C18": dict(cat="model_checking", sec="6 C18",
   text="spec/CLI.tla derives output/log paths and print/dry/write behaviour; TLC enumerates 16 flag sets x 4 input spellings (relative, absolute, GOFILE, argument and GOFILE) x 3 working directories x path states; each transition is replayed with the real binary and the files created, stdout and exit status are compared with the model's successor state",
   note="'identically' on stdout is read as the file's bytes optionally followed by one newline of the print call",
   tech="TLA+ CLI model checked by TLC; TLC transitions replayed against the real binary"),
 "C19": dict(cat="model_checking", sec="6 C19",
   text="TLC exhausts the matcher state machine (spec/Matcher.tla, SkipOptions.tla) over bounded pattern/path alphabets and checks HistoryFree etc. on the model; every emitted query sequence is replayed on the real pkg/option objects and, for option behaviours, end to end through the CLI",
   note="trusts TLC; Go's regexp/strings.EqualFold are used only to cross-check the specification's Ref; bounded alphabets (16 symbolic characters incl. three non-ASCII fold orbits; regexp ASTs of depth <= 2)",
   tech="TLA+ model of the matcher checked by TLC; TLC-generated query sequences replayed on the real matcher objects and through the CLI (spec->code conformance)"),
}

m = {
 "version": 1,
 "setup_cmd": "cd /verif/harness && GOFLAGS=-mod=mod GOPROXY=off GOSUMDB=off GOTOOLCHAIN=local go build -o /verif/bin/check ./cmd/check",
 "hooks": {"guard": "verif",
           "enable": "go build -tags verif (no in-tree hook exists; all observation points are at the process boundary and in the user code of generated test programs)",
           "baseline_off_cmd": "cd /repo && GOFLAGS=-mod=mod GOPROXY=off GOSUMDB=off go test -vet=off -count=1 ./...",
           "source_commits": [], "add_only": True},
 "engines": [{"name": "check", "path": "/verif/bin/check", "serves_properties": sorted(CHECKS),
              "kind_free_text": "TLA+ specifications in /verif/spec checked and enumerated by TLC; Go harness binds TLC's cases/behaviours/traces to the implementation built from /repo"}],
 "checks": [],
 "not_applicable": [],
 "notes": "Exit codes: 0 held, 1 VIOLATION, 2 machinery failure (never a verdict). VERIF_SEED seeds TLC simulation, sampling and input rotation.",
}
for pid in ids:
    if pid in CHECKS:
        c = CHECKS[pid]
        m["checks"].append({
            "property_id": pid,
            "quick_cmd": f"/verif/bin/check {pid} --tier quick",
            "thorough_cmd": f"/verif/bin/check {pid} --tier thorough",
            "evidence_file": f"/verif/evidence/{pid}.json",
            "replay_cmd_template": f"/verif/bin/check {pid} --replay {{path}}",
            "engine": "check",
            "level_claimed": {"category": c["cat"], "text": c["text"], "design_ref": "DESIGN.md section " + c["sec"]},
            "level_note": c["note"],
            "technique": c["tech"],
        })
    else:
        m["not_applicable"].append({"property_id": pid, "reason": "check under construction in this round (specification and binding not yet committed)"})
json.dump(m, open('/verif/MANIFEST.json', 'w'), indent=1)
print("checks:", [c["property_id"] for c in m["checks"]])
