#!/bin/bash
# development helper: apply a sub-agent's patch (/tmp/mut/<id>.out/patch.diff) to a scratch worktree of /repo HEAD and run checks against it
# usage: tools/tryhead.sh <id> <property>...
id=$1; shift
wt=/tmp/th_$id
git -C /repo worktree remove --force $wt 2>/dev/null
git -C /repo worktree add -q --detach $wt HEAD || exit 2
if ! git -C $wt apply /tmp/mut/$id.out/patch.diff 2>/dev/null; then
  if ! git -C $wt apply -3 /tmp/mut/$id.out/patch.diff >/dev/null 2>&1 || git -C $wt diff --name-only --diff-filter=U | grep -q .; then
    echo "$id: patch does not apply to HEAD (conflicts)"; git -C /repo worktree remove --force $wt; exit 3
  fi
  git -C $wt reset -q
fi
for p in "$@"; do
  out=$(VERIF_REPO=$wt timeout 1800 ${CHECK_BIN:-/verif/bin/check} $p 2>&1); code=$?
  echo "$id $p exit=$code $(echo "$out" | grep -c '^VIOLATION') violation line(s); $(echo "$out" | tail -1)"
  echo "$out" | grep -A1 '^VIOLATION' | grep '^  ' | head -3 | cut -c1-260
done
git -C /repo worktree remove --force $wt
