#!/bin/bash
# development helper: run every quick check with several seeds on the unchanged tree
# usage: tools/seedsweep.sh "2 3 5" [properties...]
set -u
cd "$(dirname "$0")/.."
export VERIF_DIR=$(pwd)
(cd harness && GOFLAGS=-mod=mod GOPROXY=off GOSUMDB=off GOTOOLCHAIN=local go build -o ../bin/check ./cmd/check) || exit 2
seeds=${1:-"2 3"}
shift || true
props=${*:-"C01 C02 C03 C04 C05 C06 C07 C08 C09 C10 C11 C12 C13 C14 C15 C16 C17 C18 C19"}
tier=${VERIF_TIER:-quick}
for s in $seeds; do
  for p in $props; do
    out=$(VERIF_SEED=$s timeout 7200 ./bin/check $p --tier $tier 2>&1)
    code=$?
    echo "seed=$s $p exit=$code $(echo "$out" | tail -1)"
    if [ $code -ne 0 ]; then echo "$out" | grep -v "^<<" | tail -15; fi
  done
done
