#!/bin/bash
# development helper: re-confirm filed seeded changes from /verif/seeded/<id> alone and run the checks that must catch them
# usage: tools/reconfirm_seeded.sh [<id>...]      (default: all)   prints one line per change
set -u
cd "$(dirname "$0")/.."
export GOFLAGS=-mod=mod GOPROXY=off GOSUMDB=off GOTOOLCHAIN=local
ids=${*:-$(ls seeded)}
base=$(mktemp -d /var/tmp/reconfirm-XXXX)
git -C /repo worktree add -q --detach $base/clean HEAD || exit 2
(cd $base/clean && go build -o $base/convergen.orig .) || exit 2
for id in $ids; do
  d=/verif/seeded/$id
  prop=$(python3 -c "import json;print(json.load(open('$d/meta.json'))['breaks_property'])")
  wt=$base/$id
  git -C /repo worktree add -q --detach $wt HEAD || { echo "$id worktree failed"; continue; }
  if ! (cd $wt && git apply $d/patch.diff && go build -o $base/convergen.$id . ) >/dev/null 2>&1; then
    echo "$id property=$prop patch does not apply or build on /repo HEAD"; git -C /repo worktree remove --force $wt; continue
  fi
  tests=pass; (cd $wt && go test -count=1 ./... 2>&1 | grep -q "^FAIL\|^---") && tests=FAIL
  tree_o=""; tree_m=""
  if grep -q 'TREE=' $d/demo/run.sh; then tree_o=$base/clean; tree_m=$wt; fi
  do=$( (cd $d/demo && bash ./run.sh $base/convergen.orig $tree_o) >/dev/null 2>&1; echo $?)
  dm=$( (cd $d/demo && bash ./run.sh $base/convergen.$id $tree_m) >/dev/null 2>&1; echo $?)
  out=$(VERIF_REPO=$wt VERIF_NOEVIDENCE=1 timeout 3600 /verif/bin/check $prop 2>&1); code=$?
  echo "$id property=$prop tests=$tests demo(unchanged)=$do demo(changed)=$dm check_exit=$code violations=$(echo "$out" | grep -c '^VIOLATION')"
  git -C /repo worktree remove --force $wt; rm -f $base/convergen.$id
  find $d -name '*.gen.go' -delete
done
git -C /repo worktree remove --force $base/clean; rm -rf $base
