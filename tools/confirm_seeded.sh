#!/bin/bash
# development helper: confirm a seeded change produced in /tmp/mut/<id> (+ /tmp/mut/<id>.out) and file it under /verif/seeded/<id>/
# usage: [DEMO_TREE=1] tools/confirm_seeded.sh <id> <property> "<needs>" "<caught-by summary>"   (DEMO_TREE=1: the demo takes the source tree as second argument)
set -u
id=$1; prop=$2; needs=$3; caught=$4
wt=/tmp/mut/$id; out=/tmp/mut/$id.out
export GOFLAGS=-mod=mod GOPROXY=off GOSUMDB=off GOTOOLCHAIN=local
cd $wt || exit 2
git diff > $out/patch.check.diff
[ -s $out/patch.diff ] || cp $out/patch.check.diff $out/patch.diff
scratch=$(mktemp -d /var/tmp/confirm-XXXX)
git -C /repo worktree add -q --detach $scratch/clean HEAD || exit 2
(cd $scratch/clean && go build -o $scratch/convergen.orig . ) || { echo "orig build failed"; exit 2; }
# the demo gets the binary and - if it asks for a second argument - the source tree it was built from
tree=""; [ "${DEMO_TREE:-0}" = 1 ] && tree=$scratch/clean
demo_orig=$( (cd $out/demo && bash ./run.sh $scratch/convergen.orig $tree) >/dev/null 2>&1; echo $?)
(cd $scratch/clean && git apply $out/patch.diff && go build -o $scratch/convergen.mut . ) || { echo "patch does not apply/build on /repo HEAD"; git -C /repo worktree remove --force $scratch/clean; exit 2; }
tests=$(cd $scratch/clean && go test -count=1 ./... 2>&1 | grep -v "no test files")
if echo "$tests" | grep -q "^FAIL\|^---"; then testres="FAIL"; else testres="pass"; fi
demo_mut=$( (cd $out/demo && bash ./run.sh $scratch/convergen.mut $tree) >/dev/null 2>&1; echo $?)
git -C /repo worktree remove --force $scratch/clean; rm -rf $scratch
echo "tests_with_change=$testres demo_on_unchanged=$demo_orig demo_on_changed=$demo_mut"
if [ "$testres" = pass ] && [ "$demo_orig" = 0 ] && [ "$demo_mut" != 0 ]; then
  d=/verif/seeded/$id; rm -rf $d; mkdir -p $d
  cp $out/patch.diff $d/patch.diff
  cp -r $out/demo $d/demo
  [ -f $out/README.md ] && cp $out/README.md $d/README.md
  find $d -name 'convergen*' -type f -size +1M -delete
  find $d -name '*.gen.go' -delete
  python3 - "$id" "$prop" "$needs" "$caught" "$testres" "$demo_orig" "$demo_mut" <<'PY'
import json,sys
id,prop,needs,caught,testres,do,dm=sys.argv[1:]
json.dump({"id":id,"breaks_property":prop,"needs_to_manifest":needs,
 "confirmed":{"applies_to_repo_head":True,"compiles":True,"existing_tests_with_change":testres,
   "demo_exit_on_unchanged_tree":int(do),"demo_exit_on_changed_tree":int(dm),
   "how":"tools/confirm_seeded.sh: patch applied to a fresh worktree of /repo HEAD outside /repo and /verif; go build; go test -count=1 ./...; demo/run.sh with both binaries"},
 "checks":caught},open('/verif/seeded/%s/meta.json'%id,'w'),indent=1)
PY
  echo "filed under $d"
else
  echo "NOT CONFIRMED - not filed"
fi
